#!/usr/bin/env python3
"""store_seed.py <TID> <PROP> <round> <demo-filter> <pkg> "<what>" "<needs>" "<confirm line>"  — copy /tmp/seed_<TID> to seeded/<TID>-<PROP>/ with meta.json"""
import sys, os, json, shutil
tid, prop, rnd, filt, pkg, what, needs, confirm = sys.argv[1:9]
d = f"{os.path.dirname(os.path.dirname(os.path.abspath(__file__)))}/seeded/{tid}-{prop}"
os.makedirs(d, exist_ok=True)
for f in ("patch.diff", "demo.diff", "notes.md"):
    shutil.copy(f"/tmp/seed_{tid}/{f}", d)
parts = dict(x.strip().split(": ") for x in confirm.split("CONFIRM " + tid + ": ")[1].split(" | "))
meta = {"id": f"{tid}-{prop}", "property": prop, "round": int(rnd), "what": what, "needs_to_manifest": needs,
        "origin": f"independent sub-agent (round {rnd}: given the property text and one-line ideas of the earlier changes to avoid, plus a hint on the kind of change (outside the obvious function / scale-dependent / unusual-but-legal path / reporting and emission / two cooperating sites))",
        "confirmed": {"ran": f"lib/confirm_seed.sh {tid} {filt} -p {pkg} (scratch worktree /tmp/wt_{tid}, own target dir)",
                      "suite_with_patch": parts["suite with patch"], "demo_with_patch": parts["demo with patch"], "demo_without_patch": parts["demo without patch"]}}
json.dump(meta, open(d + "/meta.json", "w"), indent=1)
print("stored", d)
