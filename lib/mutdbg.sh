#!/bin/bash
# usage: lib/mutdbg.sh <seeded-dir-name> setup|env|clean  — keep a mutated scratch worktree + harness copy for debugging a missed change
name=$1; base=/tmp/krp_dbg_$name
case $2 in
 setup) git -C /repo worktree add -q --detach ${base}_repo HEAD && git -C ${base}_repo apply /verif/seeded/$name/patch.diff && mkdir -p ${base}_harness && cp -r /verif/harness/src /verif/harness/Cargo.lock /verif/harness/.cargo ${base}_harness/ && sed "s|\"/repo/|\"${base}_repo/|" /verif/harness/Cargo.toml > ${base}_harness/Cargo.toml;;
 env) echo "export VERIF_HARNESS=${base}_harness VERIF_WORK=${base}_work VERIF_EVIDENCE=${base}_work/evidence VERIF_REPLAYS=${base}_work/replays";;
 clean) git -C /repo worktree remove --force ${base}_repo; rm -rf ${base}_harness ${base}_work ${base}_repo; git -C /repo worktree prune;;
esac
