#!/bin/bash
# usage: confirm_seed.sh <ID> <demo-test-filter> [cargo package args...]
# confirms in the scratch worktree /tmp/wt_<ID>: patch applies, suite passes with it, demo fails with it and passes without
ID=$1; FILTER=$2; shift; shift; PK="$@"
W=/tmp/wt_$ID; S=/tmp/seed_$ID
export CARGO_TARGET_DIR=$W/target CARGO_NET_OFFLINE=true
cd $W || exit 2
git checkout -q -- . ; git clean -fdq -e target -e Cargo.lock
git apply $S/patch.diff || { echo "CONFIRM $ID: patch does not apply"; exit 1; }
SUITE=$(cargo test --workspace --no-fail-fast --offline 2>&1 | grep -E "^test result" | awk '{p+=$4; f+=$6} END {print p" passed "f" failed"}')
git apply $S/demo.diff || { echo "CONFIRM $ID: demo does not apply"; exit 1; }
WITH=$(cargo test $PK --offline $FILTER 2>&1 | grep -E "^test result" | awk '{p+=$4; f+=$6} END {print p" passed "f" failed"}')
git checkout -q -- . ; git clean -fdq -e target -e Cargo.lock
git apply $S/demo.diff
WITHOUT=$(cargo test $PK --offline $FILTER 2>&1 | grep -E "^test result" | awk '{p+=$4; f+=$6} END {print p" passed "f" failed"}')
git checkout -q -- . ; git clean -fdq -e target -e Cargo.lock
echo "CONFIRM $ID: suite with patch: $SUITE | demo with patch: $WITH | demo without patch: $WITHOUT"
