#!/bin/bash
# usage: tlc.sh <workdir-name> <workers> <cfg> <module.tla> [extra TLC args...]
# runs TLC from /verif/spec with the Dec18 override and CommunityModules on the classpath
W=$1; shift; N=$1; shift; CFG=$1; shift; MOD=$1; shift
mkdir -p /verif/work/$W
cd /verif/spec
exec java -XX:+UseParallelGC ${TLC_JAVA_OPTS:-} -cp /opt/veriftools/tla/tla2tools.jar:/opt/veriftools/tla/CommunityModules-deps.jar:/verif/spec/classes tlc2.TLC \
  -workers $N -metadir /verif/work/$W -cleanup -noGenerateSpecTE -config $CFG "$@" $MOD
