#!/usr/bin/env python3
"""Plumbing shared by the checks: building the harness, running TLC (model checking, simulation,
trace validation), turning TLC counterexamples into replay scripts, writing evidence.
No property logic lives here: formulas are in spec/Props*.tla and are evaluated by TLC only."""
import fcntl, hashlib, json, os, re, shutil, subprocess, sys, time

VERIF = os.path.dirname(os.path.dirname(os.path.realpath(__file__)))     # /verif, or a snapshot of it (vp run)
SPEC = f"{VERIF}/spec"
# a self-test run against a patched scratch copy of the repository uses its own harness copy, work and evidence directories
WORK = os.environ.get("VERIF_WORK", f"{VERIF}/work")
HARNESS = os.environ.get("VERIF_HARNESS", f"{VERIF}/harness")
EVIDENCE = os.environ.get("VERIF_EVIDENCE", f"{VERIF}/evidence")
REPLAYS = os.environ.get("VERIF_REPLAYS", f"{VERIF}/replays")
RUN = f"{HARNESS}/target/debug/run"
JARS = "/opt/veriftools/tla/tla2tools.jar:/opt/veriftools/tla/CommunityModules-deps.jar"
CLASSES = f"{SPEC}/classes"

DEC = {"D0": [0, 0, 0], "D0001": [0, 1000000, 0], "D0005": [0, 5000000, 0], "D005": [0, 50000000, 0],
       "D03": [0, 333333333, 333333333], "D05": [0, 500000000, 0], "D075": [0, 750000000, 0],
       "D095": [0, 950000000, 0], "D1": [1, 0, 0], "D15": [1, 500000000, 0], "D1000": [1000, 0, 0]}

BASE = dict(Users=["usr1", "usr2"], NV=1, MaxBatch=6, Epoch=2, Unbonding=5, Fee="D05", Thr="D1",
            KeeperRate="D005", Price="D1", T0=1000, UserFunds=1000000, InitVals=[1])


class ToolError(Exception):
    pass


def log(*a):
    print(*a, file=sys.stderr, flush=True)


def sh(cmd, timeout=None, env=None, cwd=None):
    e = dict(os.environ)
    if env:
        e.update(env)
    p = subprocess.run(cmd, shell=isinstance(cmd, str), stdout=subprocess.PIPE, stderr=subprocess.STDOUT,
                       timeout=timeout, env=e, cwd=cwd, text=True, errors="replace")
    return p.returncode, p.stdout


# ------------------------------------------------------------------------------------------------
# build

def setup():
    """javac the Dec18 override, parse the specification, build the harness (offline)."""
    os.makedirs(WORK, exist_ok=True)
    os.makedirs(CLASSES, exist_ok=True)
    rc, out = sh(f"javac -cp /opt/veriftools/tla/tla2tools.jar -d {CLASSES} {SPEC}/Dec18.java {SPEC}/Dec18Check.java")
    if rc != 0:
        raise ToolError("javac failed:\n" + out)
    build_harness()


def build_harness():
    """(Re)build the harness against /repo's current working tree; serialised by a lock file."""
    os.makedirs(WORK, exist_ok=True)
    if not os.path.exists(f"{CLASSES}/Dec18.class") or not os.path.exists(f"{CLASSES}/Dec18Check.class") \
            or os.path.getmtime(f"{SPEC}/Dec18.java") > os.path.getmtime(f"{CLASSES}/Dec18.class"):
        os.makedirs(CLASSES, exist_ok=True)
        rc, out = sh(f"javac -cp /opt/veriftools/tla/tla2tools.jar -d {CLASSES} {SPEC}/Dec18.java {SPEC}/Dec18Check.java")
        if rc != 0:
            raise ToolError("javac failed:\n" + out)
    with open(f"{WORK}/build.lock", "w") as lk:
        fcntl.flock(lk, fcntl.LOCK_EX)
        t0 = time.time()
        rc, out = sh("cargo build --offline 2>&1 | tail -40", cwd=HARNESS, timeout=1800,
                     env={"CARGO_NET_OFFLINE": "true"})
        if rc != 0 or not os.path.exists(RUN) or "error" in out and "Finished" not in out:
            raise ToolError("harness build failed:\n" + out)
        log(f"[build] harness up to date ({time.time() - t0:.0f}s)")


# ------------------------------------------------------------------------------------------------
# configurations

def tla_val(v):
    if isinstance(v, bool):
        return "TRUE" if v else "FALSE"
    if isinstance(v, int):
        return str(v)
    if isinstance(v, str):
        return '"%s"' % v
    if isinstance(v, tuple):
        return "<<" + ", ".join(tla_val(x) for x in v) + ">>"
    if isinstance(v, (list, set)):
        return "{" + ", ".join(tla_val(x) for x in v) + "}"
    raise ValueError(v)


def cfg_text(consts, spec=None, init="Init", next_="Next", invariants=(), properties=(), constraint=None,
             view=None, postcondition=None, extra_consts=None):
    lines = ["CONSTANTS"]
    for k, v in consts.items():
        if k == "Prefix":
            continue
        if k == "StubCompare":                  # harness only: re-execute exit transactions under every stub mode
            continue
        if k == "MaxEntries":                   # exploration only: definition override of Base!MaxEntries
            if v:
                lines.append("  MaxEntries <- MaxEntriesOn")
            continue
        if k == "PayLag":                       # exploration only: definition override of Base!PayLag
            if v:
                lines.append("  PayLag <- PayLagOn")
            continue
        if k in ("Fee", "Thr", "KeeperRate", "Price"):
            lines.append(f"  {k} <- {v}")
        else:
            lines.append(f"  {k} = {tla_val(v)}")
    for k, v in (extra_consts or {}).items():
        if isinstance(v, str) and v.startswith("<-"):
            lines.append(f"  {k} {v}")
        else:
            lines.append(f"  {k} = {tla_val(v)}")
    if spec:
        lines.append(f"SPECIFICATION {spec}")
    else:
        lines += [f"INIT {init}", f"NEXT {next_}"]
    if view:
        lines.append(f"VIEW {view}")
    if constraint:
        lines.append(f"CONSTRAINT {constraint}")
    lines.append("CHECK_DEADLOCK FALSE")
    if invariants:
        lines.append("INVARIANTS " + " ".join(invariants))
    if properties:
        lines.append("PROPERTIES " + " ".join(properties))
    if postcondition:
        lines.append(f"POSTCONDITION {postcondition}")
    return "\n".join(lines) + "\n"


HARNESS_EXTRA = {}      # harness-only switches of the running check (e.g. StubCompare for C09)


def harness_cfg(consts, path):
    j = dict(consts)
    j.update(HARNESS_EXTRA)
    for k in ("Fee", "Thr", "KeeperRate", "Price"):
        j[k] = DEC[consts[k]]
    with open(path, "w") as f:
        json.dump(j, f)
    return path


# ------------------------------------------------------------------------------------------------
# TLC

STATS_RE = re.compile(r"(\d+) states generated, (\d+) distinct states found")
SIM_RE = re.compile(r"The number of states generated: (\d+)")


def tlc(name, cfg, module, workers=8, extra="", timeout=600, env=None, java_opts="-Xmx8g", dump=None):
    """Run TLC from spec/.  Returns dict(rc, out, generated, distinct, violated, timed_out)."""
    wd = f"{WORK}/{name}"
    shutil.rmtree(wd, ignore_errors=True)
    os.makedirs(wd, exist_ok=True)
    cfgp = f"{wd}/model.cfg"
    with open(cfgp, "w") as f:
        f.write(cfg)
    dumparg = f"-dumpTrace json {dump}" if dump else ""
    cmd = (f"timeout {timeout} java -Djava.io.tmpdir={wd} -XX:+UseParallelGC {java_opts} -cp {JARS}:{CLASSES} tlc2.TLC -workers {workers} "
           f"-metadir {wd}/meta -cleanup -noGenerateSpecTE -config {cfgp} {dumparg} {extra} {module}")
    t0 = time.time()
    rc, out = sh(cmd, cwd=SPEC, env=env)
    with open(f"{wd}/tlc.out", "w") as f:
        f.write(out)
    res = dict(rc=rc, out=out, wall=time.time() - t0, timed_out=(rc == 124), generated=0, distinct=0, violated=None,
               name=name, cmd=cmd, error=None)
    m = STATS_RE.findall(out)
    if m:
        res["generated"], res["distinct"] = int(m[-1][0]), int(m[-1][1])
    else:
        m2 = SIM_RE.findall(out)
        if m2:
            res["generated"] = res["distinct"] = int(m2[-1])
        else:
            pm = re.findall(r"Progress.*?([\d,]+) states (?:generated|checked)", out)
            if pm:
                res["generated"] = res["distinct"] = int(pm[-1].replace(",", ""))
    v = re.search(r"Error: (?:Invariant|Action property) (\S+) is violated", out)
    if v:
        res["violated"] = v.group(1)
    elif rc not in (0, 124) and not re.search(r"Postcondition", out):
        res["error"] = "TLC failed (rc=%d): %s" % (rc, out[-3000:])
    elif re.search(r"Error: ", out) and not v:
        # evaluation errors, parse errors, failed postcondition ...
        e = re.search(r"Error: (.*)", out)
        res["error"] = e.group(1) if e else "error"
    shutil.rmtree(f"{wd}/meta", ignore_errors=True)
    return res


def cex_events(dump_path):
    """The event list of a TLC counterexample (dumpTrace json): ev.tx of every state after the first."""
    d = json.load(open(dump_path))
    sts = d["counterexample"]["state"]
    evs = []
    for _, v in sts[1:]:
        evs.append(v["ev"]["tx"])
    return evs, sts


def write_script(events, consts, prop, note=""):
    os.makedirs(REPLAYS, exist_ok=True)
    body = json.dumps({"property": prop, "consts": consts, "events": events, "note": note}, sort_keys=True)
    h = hashlib.sha1(body.encode()).hexdigest()[:10]
    path = f"{REPLAYS}/{prop}-{h}.json"
    with open(path, "w") as f:
        f.write(body)
    return path


# ------------------------------------------------------------------------------------------------
# harness

def harness(args, timeout=1800):
    rc, out = sh([RUN] + [str(a) for a in args], timeout=timeout)
    if rc != 0:
        raise ToolError(f"harness {args[0]} failed (rc={rc}): {out[-2000:]}")
    try:
        return json.loads(out.strip().splitlines()[-1])
    except Exception:
        raise ToolError("harness output not understood: " + out[-2000:])


# ------------------------------------------------------------------------------------------------
# trace validation (implementation -> specification, monitor mode)

def split_trace(path, parts):
    """Split an ndjson trace at run boundaries ("reset" lines) into <= parts files."""
    runs, cur = [], []
    with open(path) as f:
        for line in f:
            if '"tx":{"k":"reset"}' in line[-40:]:
                if cur:
                    runs.append(cur)
                cur = []
            cur.append(line)
    if cur:
        runs.append(cur)
    parts = max(1, min(parts, len(runs)))
    total = sum(len(r) for r in runs)
    target = total / parts
    files, acc, n = [], [], 0
    for r in runs:
        acc.append(r)
        n += len(r)
        if n >= target and len(files) < parts - 1:
            files.append(acc)
            acc, n = [], 0
    if acc:
        files.append(acc)
    out = []
    for i, chunk in enumerate(files):
        p = f"{path}.part{i}"
        with open(p, "w") as f:
            for r in chunk:
                f.writelines(r)
        out.append((p, sum(len(r) for r in chunk), len(chunk)))
    return out


RESULT_RE = re.compile(r'"TRACE-RESULT", \[(.*?)\]')


def prefix_env(consts, name):
    """TLC reads the prefix events from the file named by the environment variable PREFIX."""
    if not consts.get("Prefix"):
        return {}
    os.makedirs(WORK, exist_ok=True)
    p = f"{WORK}/{name}.prefix.json"
    json.dump(consts["Prefix"], open(p, "w"))
    return {"PREFIX": p}


def split_lines(path, parts):
    """Split a file of independent cases into <= parts files."""
    lines = open(path).readlines()
    parts = max(1, min(parts, len(lines)))
    per = (len(lines) + parts - 1) // parts
    out = []
    for i in range(parts):
        chunk = lines[i * per:(i + 1) * per]
        if not chunk:
            continue
        p = f"{path}.part{i}"
        open(p, "w").writelines(chunk)
        out.append((p, len(chunk), len(chunk)))
    return out


def validate(trace, consts, invariants, properties, name, known, parts=8, timeout=900, module="KrpTrace.tla", raw_cfg=None, by_lines=False):
    """Validate an implementation trace against the specification and evaluate the given formulas
    on the implementation's own states.  Returns a dict with events, conformant, firstBad (global
    line numbers are per part), violations [(formula, part_file, line)], states."""
    chunks = split_lines(trace, parts) if by_lines else split_trace(trace, parts)
    tc = dict(consts)
    cfg = raw_cfg or cfg_text(tc, spec="TSpec", invariants=["Report"] + list(invariants), properties=properties,
                              postcondition="Accepted", extra_consts={"Known": known, "SpecLevel": "<- SpecLevelOff"})
    procs = []
    for i, (p, nlines, nruns) in enumerate(chunks):
        wd = f"{WORK}/{name}.tv{i}"
        shutil.rmtree(wd, ignore_errors=True)
        os.makedirs(wd)
        with open(f"{wd}/model.cfg", "w") as f:
            f.write(cfg)
        cmd = (f"timeout {timeout} java -Djava.io.tmpdir={wd} -XX:+UseSerialGC -Xss1g -Xmx3g -Dtlc2.tool.queue.IStateQueue=StateDeque -cp {JARS}:{CLASSES} "
               f"tlc2.TLC -workers 1 -metadir {wd}/meta -cleanup -noGenerateSpecTE -config {wd}/model.cfg "
               f"-dumpTrace json {wd}/cex.json {module}")
        e = dict(os.environ)
        e["TRACE"] = p
        procs.append((subprocess.Popen(cmd, shell=True, cwd=SPEC, env=e, stdout=open(f"{wd}/tlc.out", "w"),
                                       stderr=subprocess.STDOUT), wd, p, nlines))
    res = dict(events=0, conformant=True, divergences=[], violations=[], states=0, errors=[])
    for pr, wd, p, nlines in procs:
        rc = pr.wait()
        out = open(f"{wd}/tlc.out").read()
        v = re.search(r"Error: (?:Invariant|Action property) (\S+) is violated", out)
        m = STATS_RE.findall(out)
        if m:
            res["states"] += int(m[-1][1])
        if v:
            line = None
            try:
                d = json.load(open(f"{wd}/cex.json"))
                line = d["counterexample"]["state"][-1][1]["l"] - 1     # l points past the consumed line
            except Exception:
                pass
            res["violations"].append((v.group(1), p, line))
            res["events"] += (line or 0)
        else:
            r = RESULT_RE.search(out)
            if rc != 0 or not r:
                res["errors"].append(f"{wd}: rc={rc} " + out[-1500:])
            else:
                fields = dict(x.strip().split(" |-> ") for x in r.group(1).split(","))
                res["events"] += int(fields["events"])
                if fields["conformant"] != "TRUE":
                    res["conformant"] = False
                    res["divergences"].append((p, int(fields["firstBad"])))
        shutil.rmtree(f"{wd}/meta", ignore_errors=True)
    return res


def run_of_line(part_file, line_no):
    """The events of the recorded run that contains line `line_no` (1-based) of a trace part, up to that line."""
    evs, hdr = [], None
    with open(part_file) as f:
        for i, line in enumerate(f, 1):
            r = json.loads(line)
            if r["tx"].get("k") == "reset":
                evs, hdr = [], r
            else:
                evs.append(r["tx"])
            if i >= line_no:
                break
    return evs, hdr


def consts_of_state(st, base):
    """Recover the harness configuration of a recorded run from its initial state."""
    inv = {json.dumps(v): k for k, v in DEC.items()}
    c = dict(base)
    c["Epoch"] = st["hubPar"]["epoch"]
    c["Unbonding"] = st["chainUnbonding"]
    c["Fee"] = inv.get(json.dumps(st["hubPar"]["fee"]), base["Fee"])
    c["Thr"] = inv.get(json.dumps(st["hubPar"]["thr"]), base["Thr"])
    c["KeeperRate"] = inv.get(json.dumps(st["disp"]["rate"]), base["KeeperRate"])
    c["Price"] = inv.get(json.dumps(st["ext"]["price"]), base["Price"])
    c["T0"] = st["now"]
    c["InitVals"] = st["reg"]["vals"]
    return c
