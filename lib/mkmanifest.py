#!/usr/bin/env python3
"""Generate /verif/MANIFEST.json from the plans (one check per claimed property)."""
import json, os, sys
sys.path.insert(0, os.path.dirname(os.path.realpath(__file__)))
import plans

TEXT = {
 "C01": "Bounded-exhaustive and randomised model checking of the hub's unbond / release / withdraw machinery in the TLA+ specification (solvency invariant, release coverage and dust bound, exact payout, order independence as outcome invariants), bound to the code by replaying TLC behaviours on the six real contracts and by validating recorded executions (incl. dry-run withdrawals in every visited state) with TLC on the implementation's own states.",
 "C02": "Action properties on every transaction of the specification and of recorded executions: books <= delegations after pricing operations, delegate messages sum to the payment and go to registered validators only, undelegation equals the book decrease and requests x recorded rates, liquid balance untouched; 1-3 validators with registry changes mid-history, and 12 validators in recorded executions.",
 "C03": "The reported state (real State query, logged per step) must equal backing / (supply + pending requests); mint, convert and undelegation amounts are re-derived from the reported pre-state rates independently of the handlers and compared on every step of model and implementation traces.",
 "C04": "Action property over reported rates on every non-slashing step (all user, token, registry, reward-dispatch and environment steps), evaluated on model behaviours and on the implementation's own states; the dust-pool finding K2 is a named, witnessed signature.",
 "C05": "Fee bounds and the no-overshoot bound on the four fee paths for fee in {0, 0.005, 0.5, 1} and threshold in {0, 0.95, 1}, amounts up to the whole pool; the defect found (convert over-collection) is fixed in /repo and its witness is a permanent regression replay.",
 "C06": "Recognition exactness and pro-rata split as a state invariant relating the stored books, the delegations and the real State query; proportional loss across batches released together and between the two token types, and the total promised to a released group against what arrived for it, as action properties (cross-multiplied, exact integers).",
 "C07": "Conservation of claims per batch as a state invariant with a ghost for paid tokens; exact crediting of the cw20 sender on every accepted unbond (Send and SendFrom); claims shrink only by the owner's withdrawal of a released batch; UnbondRequests / AllHistory are the projection itself.",
 "C08": "Time-lock and lifecycle as action properties with time steps landing on and next to the epoch / unbonding boundaries for several period pairs: release only after time + unbonding <= now, at most one undelegation per epoch, consecutive ids, released entries immutable, a claim consumed only by its owner's withdrawal of a matured released batch; histories of up to 14 batches at Unix-scale block time.",
 "C09": "Outcome properties checked on every unbond / withdraw attempt, committed or dry-run (probes in every visited state of recorded executions); independence from swap / oracle as equality of the specification's outcome under all stub modes with what the implementation did; K2 is a named, witnessed signature.",
 "C10": "Exhaustive enumeration (model: BFS over principal configurations; implementation: dry-run of every message variant x 13 sender classes in evolving states) against a table of designated principals written from the property statement; nested calls are checked through the logged message tree.",
 "C11": "Every hub message x sender in paused states (incl. seeded legacy wait-list entries in the on-disk format), pause cycles inside operation histories; UpdateParams changes only the parameters; all hub queries are executed in every visited state.",
 "C12": "Function level: TLC enumerates all validator lists up to length 4-5 and amounts and checks the post-conditions on the transcription; the REAL functions are executed on every enumerated case and on seeded random cases up to 1.5e8 per entry (with a non-termination watchdog) and TLC validates their results; at the magnitudes of the envelope (stakes and amounts to 1e18, lists to 9 validators) the real functions' results are judged against the same post-conditions by Apalache over unbounded integers.",
 "C13": "Action property on every successful RemoveValidator in histories with 1-3 validators, pending rewards, in-flight batches, redelegation blocked / allowed, remove / re-add; runs the real registry + hub + dispatcher + reward cascade.",
 "C14": "Solvency / stranded-dust invariants with exact 18-digit decimals, claim outcome property on every claim attempt (committed or dry run), ghost totals claimed <= delivered; reward deliveries both through the real four-contract cascade and directly.",
 "C15": "A per-holder ideal-accrual ghost (exact pro-rata per index update, computed from bank movements, bSei token balances and the bSei supply - not from the reward contract's records - and independent of other holders by construction) bounds earned rewards from both sides; without an index update a holder's accrual changes only by its own claim.",
 "C16": "State invariant over every reachable state of all nine bSei operations by holders, spenders and the hub; the projection reads the real reward contract's holders and the real token balances.",
 "C17": "Grid over balances, bonded pairs, prices 1e-3..1e3 and keeper rates in [0,1] with the dispatcher called by the hub principal and through the whole UpdateGlobalIndex cascade: share bound, exact keeper amounts, nothing kept, success for every balance; zero-amount transfers are the named, witnessed finding K1.",
 "C18": "Conservation invariant for both ledgers incl. accounts outside the modelled universe (enumerated with AllAccounts), authorisation of mint / burn, allowance bounds with time and height expirations, rate refresh after burns from the logged message tree, instantiate with repeated addresses (defect fixed in /repo, regression witness).",
 "C19": "Action property on every successful UpdateGlobalIndex (also triggered by RemoveValidator) over the real four-contract cascade, plus an outcome property that it executes whenever stake is bonded (dry-run in every visited state); the credit to bSei holders is measured against the coins that reached the reward contract in the transaction; K1 is a named, witnessed signature.",
 "C20": "Range invariants and field-by-field action properties over every UpdateParams / UpdateConfig / UpdateSwap* / UpdateOracle* / instantiate message with absent, in-range, boundary and out-of-range values, enumerated in the model and executed on the real contracts.",
}
TECH = {
 "C12": "explicit TLA+ specification of the two distribution functions checked by TLC (exhaustive grid), the real functions' results validated by TLC against it case by case; Apalache evaluates the post-conditions on the real functions' results at 1e18",
 "C18": "explicit TLA+ specification checked by TLC (bounded exhaustive + simulation), bound to the code by spec->impl replay and impl->spec trace validation; thorough tier adds an Apalache inductive invariant for the ledger operations over unbounded integers",
 "C03": "explicit TLA+ specification checked by TLC (bounded exhaustive + simulation), bound to the code by spec->impl replay and impl->spec trace validation; the decimal kernel of the specification is cross-checked against the real arithmetic at 1e18",
 "C14": "explicit TLA+ specification checked by TLC (bounded exhaustive + simulation), bound to the code by spec->impl replay and impl->spec trace validation; the decimal kernel of the specification is cross-checked against the real arithmetic at 1e18",
 "C17": "explicit TLA+ specification checked by TLC (bounded exhaustive + simulation), bound to the code by spec->impl replay and impl->spec trace validation; the decimal kernel of the specification is cross-checked against the real arithmetic at 1e18",
}
NOTE = "Assumes the operating envelope of DESIGN.md section 4 and the MiniChain environment model; trusted base: TLC + the 40-line BigInteger override of Dec18 (cross-checked against cosmwasm_std by step-by-step conformance), the projection code of the harness. Exhaustive results hold only for the stated small constants; larger amounts (to 2^31) are sampled by simulation and recorded traces."


def main():
    checks = []
    for pid in sorted(plans.PLANS):
        checks.append(dict(
            property_id=pid,
            quick_cmd=f"./check {pid} quick",
            thorough_cmd=f"./check {pid} thorough",
            evidence_file=f"/verif/evidence/{pid}.json",
            replay_cmd_template="./check replay {path}",
            engine="tlc",
            level_claimed=dict(category="model_checking", text=TEXT[pid], design_ref="DESIGN.md section 5, " + pid),
            level_note=NOTE,
            technique=TECH.get(pid, "explicit TLA+ specification checked by TLC (bounded exhaustive + simulation), bound to the code by spec->impl replay and impl->spec trace validation")))
    m = dict(version=1, setup_cmd="./check setup",
             hooks=dict(guard="krp_verif", enable="harness/.cargo/config.toml sets rustflags --cfg krp_verif for the harness build (path dependencies on /repo); the only hooks are cfg-guarded `pub use` re-exports of private arithmetic helpers (hub math::decimal_division, reward math::*) used by the kernel check; observation of the contracts needs no hook (instantiate / execute / query and the crates' public storage readers)",
                        baseline_off_cmd="cd /repo && cargo test --workspace --no-fail-fast --offline", source_commits=["8d760b0", "728cb0b"], add_only=True),
             engines=[dict(name="tlc", path="/verif/spec", serves_properties=sorted(plans.PLANS), kind_free_text="TLA+ specification of the six contracts and the chain, TLC model checking / simulation / trace validation; Rust harness executing the real contracts")],
             checks=checks, not_applicable=[],
             notes="Model-based verification with an explicit TLA+ specification (DESIGN.md). Verdicts: exit 0 / exit 1 + VIOLATION line / exit 2 tool error; DIVERGENCE lines are informational (the code does something the specification does not describe, but the property holds on the code's own states). Known findings: known_findings.txt.")
    json.dump(m, open("/verif/MANIFEST.json", "w"), indent=1)
    print("manifest written:", len(checks), "checks")


if __name__ == "__main__":
    main()
