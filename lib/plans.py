"""Per-property plans: which formulas of spec/PropDefs.tla decide the property, and which
configurations / generators / drivers exercise them.  Data only."""

HF = dict(Amts=[1, 3, 10], Dts=[3, 5], SlashDiv=[2, 10], MaxTime=1040, EmitLen=0, OnlyOk=False, MaxSteps=5,
          Features=["core", "slash", "donate"], RewardAmts=[1, 7])
HF_SMALL = dict(MaxBatch=3, UserFunds=1000)


def hf_mc(name, consts=None, extra=None, depth=(4, 6), timeout=(75, 420), **kw):
    c = dict(HF_SMALL)
    c.update(consts or {})
    e = dict(HF)
    e.update(extra or {})
    return dict(name=name, module="MC_HubFlow", consts=c, extra=e, depth=depth, timeout=timeout, **kw)


def hf_hunt(name, consts=None, extra=None, hunt_time=(240, 3000), **kw):
    j = hf_mc(name, consts, extra, **kw)
    j["consts"]["MaxBatch"] = 6
    j["hunt_time"] = hunt_time
    return j


def hf_sim(name, consts=None, extra=None, num=(60, 600), depth=22, **kw):
    c = dict(HF_SMALL)
    c["MaxBatch"] = 6
    c.update(consts or {})
    e = dict(HF)
    e.update(MaxTime=100000)
    e.update(extra or {})
    return dict(name=name, module="MC_HubFlow", consts=c, extra=e, num=num, depth=depth, **kw)


MENU_HUB = {"items": {"bond": 6, "bond_st": 6, "unbond_b": 6, "unbond_st": 6, "convert_b_st": 3, "convert_st_b": 3, "withdraw": 6,
                      "check_slashing": 2, "transfer_b": 2, "transfer_st": 2, "from_b": 1, "from_st": 1, "allow_b": 1, "allow_st": 1,
                      "advance": 8, "slash": 2, "slash_unb": 2, "donate": 1, "accrue": 2, "ugi": 2, "claim": 1, "set_ext": 1},
            "amax": 30, "dts": [1, 2, 3, 4, 5, 6], "slash_div": [2, 3, 10], "probes": ["withdraw", "unbond_b", "unbond_st"], "probe_every": 4,
            "vary": {"fee": [[0, 500000000, 0], [0, 5000000, 0], [0, 0, 0], [1, 0, 0]], "thr": [[1, 0, 0], [0, 950000000, 0], [0, 0, 0]],
                     "keeper_rate": [[0, 50000000, 0], [0, 0, 0]], "periods": [[2, 5], [3, 3], [1, 7]]}}


def menu(base, **over):
    m = dict(base)
    m["items"] = dict(base["items"])
    for k, v in over.items():
        if k == "items":
            m["items"].update(v)
        else:
            m[k] = v
    return m


# moderate prices only: 1000x prices times millions leave TLC's 31-bit integers in intermediate results
MENU_BIG = menu(MENU_HUB, amax=2000000, prices=[[1, 0, 0], [0, 750000000, 0], [1, 500000000, 0], [0, 333333333, 333333333]])


def hub_drives(runs=(150, 600), big=(40, 200)):
    return [dict(name="hubflow", menu=MENU_HUB, runs=runs, len=40, consts=dict(MaxBatch=8)),
            dict(name="hubflow-big", menu=MENU_BIG, runs=big, len=40, consts=dict(MaxBatch=8, UserFunds=400000000))]


MENU_RELEASE = {"items": {"bond": 4, "bond_st": 4, "unbond_b": 7, "unbond_st": 7, "advance": 9, "slash_unb": 4, "slash": 1, "withdraw": 9, "donate": 1, "convert_b_st": 1, "convert_st_b": 1},
                "amax": 600, "dts": [2, 3, 5, 6], "slash_div": [2, 3, 10], "probes": ["withdraw"], "probe_every": 5,
                "vary": {"fee": [[0, 5000000, 0], [0, 0, 0], [0, 500000000, 0]], "thr": [[1, 0, 0]], "periods": [[2, 5], [3, 3], [1, 7]]}}


def release_drive(runs=(150, 600)):
    return dict(name="release", menu=MENU_RELEASE, runs=runs, len=45, consts=dict(MaxBatch=8))


# dust: one- and two-unit amounts around slashing (floors to zero, empty-valued batches, 1-unit pools)
MENU_DUST = {"items": {"bond": 5, "bond_st": 5, "unbond_b": 7, "unbond_st": 7, "advance": 9, "slash": 4, "slash_unb": 1, "withdraw": 8, "convert_b_st": 2,
                       "convert_st_b": 2, "check_slashing": 1, "transfer_b": 1},
             "amax": 3, "dts": [3, 5, 6], "slash_div": [2, 3, 10], "probes": ["withdraw", "unbond_b", "unbond_st"], "probe_every": 3,
             "vary": {"fee": [[0, 5000000, 0], [0, 0, 0], [0, 500000000, 0]], "thr": [[1, 0, 0]], "periods": [[2, 5], [1, 7]]}}


def dust_drive(runs=(150, 600)):
    return dict(name="dust", menu=MENU_DUST, runs=runs, len=45, consts=dict(MaxBatch=8))


PLANS = {}

PLANS["C01"] = dict(
    invariants=["Inv_C01"], actions=["Act_C01"],
    rule="a case is a behaviour (sequence of transactions and environment events); non-trivial when it contains a successful WithdrawUnbonded",
    mc=[hf_mc("fee05"), hf_mc("nofee-slashunb", consts=dict(Fee="D0"), extra=dict(SlashDiv=[2]), thorough_only=True)],
    hunt=[hf_hunt("fee05")],
    sim=[hf_sim("fee05")],
    drive=hub_drives())
PLANS["C01"]["drive"] = hub_drives() + [release_drive(), dust_drive()]

PLANS["C05"] = dict(invariants=["Inv_C05"], actions=["Act_C05"], rule="", mc=[], drive=[])

HUB_FEATS_ALL = ["core", "slash", "donate", "transfer"]

PLANS["C02"] = dict(
    invariants=[], actions=["Act_C02"],
    rule="non-trivial: behaviours containing a bond with >= 2 registered validators or an undelegating unbond",
    mc=[hf_mc("nv2", consts=dict(NV=2, InitVals=[1, 2]), extra=dict(Features=["core", "slash", "registry"], Amts=[1, 10]), depth=(3, 5)),
        hf_mc("nv1", extra=dict(Features=["core", "slash", "donate", "reward"]), depth=(4, 6), thorough_only=True)],
    hunt=[hf_hunt("nv3", consts=dict(NV=3, InitVals=[1, 2]), extra=dict(Features=["core", "slash", "registry", "reward", "transfer"]))],
    sim=[hf_sim("nv3", consts=dict(NV=3, InitVals=[1, 2, 3]), extra=dict(Features=["core", "slash", "registry", "reward"]))],
    drive=[])

PLANS["C03"] = dict(
    invariants=["Inv_C03"], actions=["Act_C03"], rule="non-trivial: behaviours with a mint, convert or undelegation at a rate different from 1",
    mc=[hf_mc("fee05", extra=dict(Features=HUB_FEATS_ALL), depth=(3, 5)), hf_mc("thr095", consts=dict(Thr="D095", Fee="D0005"), thorough_only=True)],
    hunt=[hf_hunt("fee05", extra=dict(Features=HUB_FEATS_ALL + ["reward", "allow"]))],
    sim=[hf_sim("fee05", extra=dict(Features=HUB_FEATS_ALL + ["reward"]))],
    drive=hub_drives())

PLANS["C04"] = dict(
    invariants=[], actions=["Act_C04"], rule="non-trivial: behaviours in which a reported rate differs from 1",
    mc=[hf_mc("fee05", extra=dict(Features=HUB_FEATS_ALL), depth=(3, 5)), hf_mc("nofee", consts=dict(Fee="D0"), thorough_only=True)],
    hunt=[hf_hunt("fee05", extra=dict(Features=HUB_FEATS_ALL + ["reward", "allow", "registry"]), consts=dict(NV=2, InitVals=[1, 2]))],
    sim=[hf_sim("fee05", extra=dict(Features=HUB_FEATS_ALL + ["reward"]))],
    drive=hub_drives())

PLANS["C05"] = dict(
    invariants=["Inv_C05"], actions=["Act_C05"], rule="non-trivial: behaviours with a fee-path operation while the reported bSei rate is below 1",
    mc=[hf_mc("fee05", depth=(4, 6)), hf_mc("fee1", consts=dict(Fee="D1"), depth=(4, 6)),
        hf_mc("thr095", consts=dict(Thr="D095", Fee="D05"), thorough_only=True), hf_mc("thr0", consts=dict(Thr="D0", Fee="D05"), thorough_only=True)],
    hunt=[hf_hunt("fee05"), hf_hunt("fee1", consts=dict(Fee="D1"), hunt_num=(150, 3000)), hf_hunt("fee0005-thr095", consts=dict(Fee="D0005", Thr="D095"), hunt_num=(150, 3000))],
    sim=[hf_sim("fee05")],
    drive=hub_drives())

PLANS["C06"] = dict(
    invariants=["Inv_C06"], actions=["Act_C06"], rule="non-trivial: behaviours with slashing while both pools are non-empty, or a release of >= 2 batches after slashing of unbonding stake",
    mc=[hf_mc("nv2", consts=dict(NV=2, InitVals=[1, 2]), extra=dict(Amts=[1, 3, 10], Features=["core", "slash"]), depth=(3, 5)), hf_mc("nv1", depth=(4, 6), thorough_only=True)],
    hunt=[hf_hunt("nv3", consts=dict(NV=3, InitVals=[1, 2, 3]), extra=dict(SlashDiv=[2, 3, 10]))],
    sim=[hf_sim("nv2", consts=dict(NV=2, InitVals=[1, 2]))],
    drive=hub_drives() + [release_drive()])

PLANS["C07"] = dict(
    invariants=["Inv_C07"], actions=["Act_C07"], rule="non-trivial: behaviours with unbonds of >= 2 senders into one batch or a SendFrom unbond",
    mc=[hf_mc("allow", extra=dict(Features=["core", "allow"], Amts=[1, 3]), depth=(3, 5)), hf_mc("fee05", depth=(4, 6), thorough_only=True)],
    hunt=[hf_hunt("allow", extra=dict(Features=HUB_FEATS_ALL + ["allow"]))],
    sim=[hf_sim("allow", extra=dict(Features=HUB_FEATS_ALL + ["allow"]))],
    drive=hub_drives())

PLANS["C08"] = dict(
    invariants=["Inv_C08"], actions=["Act_C08"], rule="non-trivial: behaviours with an undelegation or a release exactly on / next to a boundary second",
    mc=[hf_mc("e2u5", extra=dict(Dts=[1, 2, 3, 5]), depth=(4, 6)), hf_mc("e3u3", consts=dict(Epoch=3, Unbonding=3), extra=dict(Dts=[1, 3, 4]), thorough_only=True)],
    hunt=[hf_hunt("e2u5", extra=dict(Dts=[1, 2, 3, 4, 5, 6])), hf_hunt("e1u7", consts=dict(Epoch=1, Unbonding=7), extra=dict(Dts=[1, 2, 6, 7, 8]), hunt_num=(150, 3000))],
    sim=[hf_sim("e2u5", extra=dict(Dts=[1, 2, 3, 4, 5, 6]))],
    drive=hub_drives())

PLANS["C09"] = dict(
    invariants=[], actions=["Act_C09"], rule="non-trivial: unbond / withdraw attempts (committed or dry-run probes) in states with slashing, dust pools or failing stubs",
    mc=[hf_mc("ext", extra=dict(Features=["core", "slash", "ext"]), depth=(3, 5)), hf_mc("fee05", depth=(4, 5), thorough_only=True)],
    hunt=[hf_hunt("ext", extra=dict(Features=HUB_FEATS_ALL + ["ext", "reward"]))],
    sim=[hf_sim("ext", extra=dict(Features=HUB_FEATS_ALL + ["ext", "reward"]))],
    drive=hub_drives())

SENDERS = ["owner", "owner2", "hub", "bsei", "stsei", "reward", "dispatcher", "registry", "updater", "keeper", "airdrop", "usr1", "usr2"]


def ex(s, c, m, f=()):
    return {"k": "exec", "sender": s, "c": c, "msg": m, "funds": list(f)}


AUTH_PREFIX = [ex("usr1", "hub", {"k": "bond"}, [{"d": "usei", "a": 10}]), ex("usr2", "hub", {"k": "bond_for_st_sei"}, [{"d": "usei", "a": 10}]),
               ex("usr1", "stsei", {"k": "transfer", "recipient": "usr1", "amount": 1}), ex("usr2", "stsei", {"k": "transfer", "recipient": "usr1", "amount": 3}),
               ex("usr1", "bsei", {"k": "increase_allowance", "spender": "usr2", "amount": 3, "expires": {"k": "none", "v": 0}}),
               ex("usr1", "stsei", {"k": "increase_allowance", "spender": "usr2", "amount": 3, "expires": {"k": "none", "v": 0}})]
AUTH_CONSTS = dict(MaxBatch=3, UserFunds=1000, Prefix=AUTH_PREFIX)


def auth_mc(name, depth=(1, 2), timeout=(200, 600), senders=None, **kw):
    return dict(name=name, module="MC_Auth", consts=dict(AUTH_CONSTS), init="InitP",
                extra=dict(Senders=senders or SENDERS, EmitLen=0, OnlyOk=False, AuthDepth=0), depth=depth, timeout=timeout, **kw)


def auth_hunt(name, **kw):
    j = auth_mc(name, **kw)
    j["hunt_time"] = (240, 3000)
    j["hunt_num"] = (120, 500)
    j["sim_depth"] = 12
    return j


def auth_sim(name, num=(40, 200), depth=10):
    return dict(name=name, module="MC_Auth", consts=dict(AUTH_CONSTS), init="InitP",
                extra=dict(Senders=SENDERS, AuthDepth=0), num=num, depth=depth)


MENU_AUTH = {"items": {"auth": 14, "advance": 1, "pause": 2, "params": 4, "handover": 4, "keeper_rate": 1, "set_legacy": 1, "migrate": 2, "instantiate": 1,
                       "bond": 1, "unbond_b": 1, "withdraw": 1, "ugi": 1},
             "amax": 10, "dts": [1, 3, 5], "probes": [], "probe_every": 6, "auth_probes": True}


def auth_drive(runs=(12, 60)):
    return [dict(name="auth", menu=MENU_AUTH, runs=runs, len=24, consts=dict(MaxBatch=6, UserFunds=1000, Prefix=AUTH_PREFIX))]


PLANS["C10"] = dict(
    invariants=[], actions=["Act_C10"],
    rule="a case is (principal configuration, message variant, sender); non-trivial = distinct triples evaluated, counted by TLC as generated states",
    mc=[auth_mc("all")], hunt=[auth_hunt("all")], sim=[auth_sim("all")], drive=auth_drive())
PLANS["C11"] = dict(
    invariants=[], actions=["Act_C11"],
    rule="non-trivial: hub messages attempted while paused, pause / unpause cycles, legacy wait-list entries present",
    mc=[auth_mc("all")], hunt=[auth_hunt("all")], sim=[auth_sim("all")],
    drive=auth_drive() + [dict(name="hubflow-pause", menu=menu(MENU_HUB, items={"pause": 4, "migrate": 1, "set_legacy": 1}), runs=(80, 320), len=40, consts=dict(MaxBatch=8))])
PLANS["C20"] = dict(
    invariants=["Inv_C20"], actions=["Act_C20"],
    rule="non-trivial: update / instantiate messages with each optional field absent, in range, on the boundary and out of range",
    mc=[auth_mc("all")], hunt=[auth_hunt("all")], sim=[auth_sim("all")], drive=auth_drive())

PLANS["C12"] = dict(
    invariants=["Inv_C12"], actions=[], rule="a case is (list of existing delegations, amount); all distinct; non-trivial = list non-empty and amount > 0",
    gridjobs=[dict(grid=(dict(MaxLen=4, MaxStake=5, MaxExtra=6), dict(MaxLen=5, MaxStake=6, MaxExtra=8)), timeout=(300, 3000), random=(20000, 400000))])

PLANS["C13"] = dict(
    invariants=[], actions=["Act_C13"], rule="non-trivial: successful RemoveValidator of a validator that holds a delegation",
    mc=[hf_mc("nv3", consts=dict(NV=3, InitVals=[1, 2, 3]), extra=dict(Features=["core", "registry", "reward"], Amts=[10], RewardAmts=[100], Dts=[3]), depth=(3, 4))],
    hunt=[hf_hunt("nv3", consts=dict(NV=3, InitVals=[1, 2]), extra=dict(Features=["core", "slash", "registry", "reward"], RewardAmts=[40, 100]))],
    sim=[hf_sim("nv3", consts=dict(NV=3, InitVals=[1, 2, 3]), extra=dict(Features=["core", "slash", "registry", "reward"], RewardAmts=[40, 100]))],
    drive=[dict(name="registry", menu=menu(MENU_HUB, items={"add_validator": 4, "remove_validator": 6, "redelegations": 2, "set_canredel": 2, "accrue": 4, "ugi": 3, "set_ext": 0},
                                           vary={"keeper_rate": [[0, 50000000, 0], [0, 0, 0]], "init_vals": [[1, 2, 3], [1, 2], [2]]}, amax=200),
                runs=(120, 500), len=40, consts=dict(MaxBatch=8, NV=3, InitVals=[1, 2, 3]))])

LAB = dict(Features=["rewardlab"], Amts=[1, 3], RewardAmts=[1, 3, 7], MaxTime=100000)
MENU_LAB = {"items": {"rew_swapdenom": 1, "rew_swap": 1, "mint_b": 5, "transfer_b": 6, "burn_b": 1, "deliver": 5, "index_update": 5, "claim": 5, "bond": 2, "unbond_b": 2, "convert_b_st": 1,
                      "convert_st_b": 1, "bond_st": 1, "from_b": 2, "allow_b": 2, "advance": 2},
            "amax": 40, "dts": [1, 3, 5], "probes": ["claim"], "probe_every": 4}
# direct (unbacked) mints of millions of bSei make the hub rate tiny; the hub pricing paths are left out of the big-amount lab
MENU_LAB_BIG = menu(MENU_LAB, amax=3000000, items={"bond": 0, "bond_st": 0, "unbond_b": 0, "convert_b_st": 0, "convert_st_b": 0})


def lab_drives(runs=(150, 600)):
    return [dict(name="rewardlab", menu=MENU_LAB, runs=runs, len=40, consts=dict(MaxBatch=8, Users=["usr1", "usr2", "usr3"])),
            dict(name="rewardlab-big", menu=MENU_LAB_BIG, runs=(40, 200), len=40, consts=dict(MaxBatch=8, UserFunds=400000000, Users=["usr1", "usr2", "usr3"]))]


for pid, inv, act, rule in (("C14", ["Inv_C14"], ["Act_C14"], "non-trivial: behaviours with >= 1 index update while >= 2 holders have balances, and claims (committed or probed)"),
                            ("C15", ["Inv_C15"], ["Act_C15"], "non-trivial: behaviours with index updates interleaved with transfers / mints / burns of other holders"),
                            ("C16", ["Inv_C16"], [], "non-trivial: behaviours exercising each of the nine bSei operations incl. hub-initiated burn / mint")):
    PLANS[pid] = dict(
        invariants=inv, actions=act, rule=rule,
        mc=[hf_mc("lab", consts=dict(Users=["usr1", "usr2"]), extra=LAB, depth=(5, 7)),
            hf_mc("flow", extra=dict(Features=["core", "transfer", "allow"], Amts=[1, 3]), depth=(3, 4), thorough_only=(pid != "C16"))],
        hunt=[hf_hunt("lab", consts=dict(Users=["usr1", "usr2", "usr3"]), extra=LAB),
              hf_hunt("flow", extra=dict(Features=["core", "transfer", "allow", "reward", "slash"], RewardAmts=[40, 100]), hunt_num=(150, 3000))],
        sim=[hf_sim("lab", consts=dict(Users=["usr1", "usr2", "usr3"]), extra=LAB)],
        drive=lab_drives() + [hub_drives()[0]])

PLANS["C18"] = dict(
    invariants=["Inv_C18"], actions=["Act_C18"], rule="non-trivial: behaviours with allowance-based operations, expirations, and instantiate messages with repeated addresses",
    mc=[hf_mc("tok", extra=dict(Features=["core", "transfer", "allow"], Amts=[1, 3], Dts=[3]), depth=(3, 4)),
        hf_mc("tokinit", extra=dict(Features=["tokinit", "transfer", "allow"], Amts=[1, 3]), depth=(3, 4))],
    hunt=[hf_hunt("tok", extra=dict(Features=["core", "transfer", "allow", "tokinit"]))],
    sim=[hf_sim("tok", extra=dict(Features=["core", "transfer", "allow", "tokinit"]))],
    drive=[dict(name="tokens", menu=menu(MENU_HUB, items={"allow_b": 5, "allow_st": 5, "from_b": 6, "from_st": 6, "transfer_b": 4, "transfer_st": 4, "tokinit": 1, "disp_hub": 2, "allow_zero": 3}),
                runs=(150, 600), len=40, consts=dict(MaxBatch=8))])

DISP = dict(FundAmts=[0, 1, 7, 30], Prices=["D1", "D075", "D03", "D1000", "D0001"], Rates=["D0", "D005", "D03", "D1"],
            BondedPairs=[1, 2, 3, 4, 5, 6, 7, 8], EmitLen=0, OnlyOk=False)
DISP_PREFIX = [ex("usr1", "hub", {"k": "bond"}, [{"d": "usei", "a": 30}]), ex("usr2", "hub", {"k": "bond_for_st_sei"}, [{"d": "usei", "a": 10}])]
DISP_CONSTS = dict(MaxBatch=3, UserFunds=1000, Prefix=DISP_PREFIX)


def disp_mc(name, depth=(3, 5), timeout=(120, 1500), **kw):
    return dict(name=name, module="MC_Dispatch", consts=dict(DISP_CONSTS), init="InitP", extra=dict(DISP), depth=depth, timeout=timeout, **kw)


def disp_hunt(name, **kw):
    j = disp_mc(name, **kw)
    j.update(hunt_time=(240, 3000), hunt_num=(300, 6000), sim_depth=16)
    return j


MENU_DISP = {"items": {"disp_swapdenom": 2, "fund_disp": 10, "disp_swap": 6, "disp_dispatch": 6, "ugi": 6, "accrue": 6, "set_price": 3, "keeper_rate": 3, "bond": 2, "bond_st": 2,
                       "unbond_b": 1, "unbond_st": 1, "claim": 2, "advance": 1, "slash": 1},
             "amax": 60, "dts": [1, 3], "probes": ["ugi"], "probe_every": 3}

PLANS["C17"] = dict(
    invariants=["Inv_C17"], actions=["Act_C17"], rule="a case is (balances of both reward coins, bonded pair, price, keeper rate); non-trivial = both a swap and a dispatch executed",
    mc=[disp_mc("grid")], hunt=[disp_hunt("grid")],
    sim=[dict(name="grid", module="MC_Dispatch", consts=dict(DISP_CONSTS), init="InitP", extra=dict(DISP), num=(60, 600), depth=12)],
    drive=[dict(name="dispatch", menu=MENU_DISP, runs=(150, 600), len=40, consts=dict(MaxBatch=8)),
           dict(name="dispatch-big", menu=menu(MENU_DISP, amax=2000000, prices=[[1, 0, 0], [0, 750000000, 0], [1, 500000000, 0], [0, 333333333, 333333333]]), runs=(40, 200), len=40, consts=dict(MaxBatch=8, UserFunds=400000000))])

PLANS["C19"] = dict(
    invariants=[], actions=["Act_C19"], rule="non-trivial: successful UpdateGlobalIndex with pending rewards on >= 1 validator (also triggered by RemoveValidator)",
    mc=[disp_mc("grid", depth=(3, 4)),
        hf_mc("flow", consts=dict(NV=2, InitVals=[1, 2]), extra=dict(Features=["core", "reward", "registry"], Amts=[10], RewardAmts=[40, 100], Dts=[3]), depth=(3, 4))],
    hunt=[disp_hunt("grid"), hf_hunt("flow", consts=dict(NV=2, InitVals=[1, 2]), extra=dict(Features=["core", "slash", "reward", "registry", "transfer"], RewardAmts=[1, 40, 100]), hunt_num=(200, 4000))],
    sim=[hf_sim("flow", consts=dict(NV=2, InitVals=[1, 2]), extra=dict(Features=["core", "slash", "reward", "registry"], RewardAmts=[40, 100]))],
    drive=[dict(name="dispatch", menu=MENU_DISP, runs=(150, 600), len=40, consts=dict(MaxBatch=8, NV=2, InitVals=[1, 2])),
           PLANS["C13"]["drive"][0]])


def seeded(inv, act, seeds=(10, 150), depth=(2, 3), timeout=(150, 3000), **kw):
    return dict(menu=MENU_RELEASE if kw.pop("release", False) else MENU_HUB, runs=(30, 200), len=40, consts=dict(MaxBatch=8), seeds=seeds, depth=depth,
                timeout=timeout, inv=inv, act=act, extra=dict(Amts=[1, 7], Dts=[3, 5], SlashDiv=[2], Features=["core", "slash", "donate"]), **kw)


PLANS["C01"]["seeded"] = [seeded(["Inv_C01"], ["Act_C01s"], release=True)]
PLANS["C02"]["seeded"] = [seeded([], ["Act_C02"], thorough_only=True)]
PLANS["C03"]["seeded"] = [seeded(["Inv_C03"], ["Act_C03"], thorough_only=True)]
PLANS["C04"]["seeded"] = [seeded([], ["Act_C04"])]
PLANS["C05"]["seeded"] = [seeded([], ["Act_C05"], thorough_only=True)]
PLANS["C06"]["seeded"] = [seeded(["Inv_C06"], ["Act_C06"], release=True, thorough_only=True)]
PLANS["C08"]["seeded"] = [seeded(["Inv_C08"], ["Act_C08"], thorough_only=True)]
PLANS["C09"]["seeded"] = [seeded([], ["Act_C09"])]
PLANS["C03"]["kernel"] = [dict(cases=(20000, 400000))]
PLANS["C14"]["kernel"] = [dict(cases=(20000, 400000))]
PLANS["C17"]["kernel"] = [dict(cases=(20000, 400000))]

for _p in ("C03", "C04", "C09"):
    PLANS[_p]["drive"] = PLANS[_p]["drive"] + [dust_drive()]

# rewards re-bonded right after a slash; long idle periods with failing stubs
MENU_REWARDS_SLASH = {"items": {"bond": 4, "bond_st": 4, "slash": 5, "accrue": 8, "ugi": 8, "check_slashing": 1, "unbond_b": 2, "unbond_st": 2, "advance": 3, "convert_b_st": 1},
                      "amax": 400, "dts": [1, 3, 5], "slash_div": [3, 10], "probes": [], "probe_every": 0,
                      "vary": {"keeper_rate": [[0, 50000000, 0]], "fee": [[0, 5000000, 0], [0, 0, 0]], "thr": [[1, 0, 0]]}}
MENU_STALE = menu(MENU_HUB, items={"advance_big": 3, "set_ext": 4, "accrue": 1, "ugi": 1})
PLANS["C06"]["drive"] = PLANS["C06"]["drive"] + [dict(name="rewards-slash", menu=MENU_REWARDS_SLASH, runs=(150, 600), len=40, consts=dict(MaxBatch=8, NV=2, InitVals=[1, 2]))]
PLANS["C02"]["drive"] = [dict(name="rewards-slash", menu=MENU_REWARDS_SLASH, runs=(150, 600), len=40, consts=dict(MaxBatch=8, NV=2, InitVals=[1, 2]))]
PLANS["C09"]["drive"] = PLANS["C09"]["drive"] + [dict(name="stale", menu=MENU_STALE, runs=(150, 600), len=40, consts=dict(MaxBatch=8))]

# the hub flow over three validators and three users, with the registry changing underneath (stake spread over several
# validators, several unbonding entries per batch, one validator slashed among several, removal while batches are in flight)
MENU_WIDE = menu(MENU_HUB, items={"add_validator": 2, "remove_validator": 2, "redelegations": 1, "slash": 4, "slash_unb": 3, "set_ext": 0, "accrue": 3, "ugi": 3},
                 amax=300, vary={"fee": [[0, 500000000, 0], [0, 5000000, 0], [0, 0, 0]], "thr": [[1, 0, 0], [0, 950000000, 0]], "keeper_rate": [[0, 50000000, 0], [0, 0, 0]],
                                 "periods": [[2, 5], [3, 3], [1, 7]], "init_vals": [[1, 2, 3], [1, 2], [1, 3]]})


def wide_drive(runs=(60, 240)):
    return dict(name="hubflow-wide", menu=MENU_WIDE, runs=runs, len=45, consts=dict(MaxBatch=8, NV=3, InitVals=[1, 2, 3], Users=["usr1", "usr2", "usr3"]))


for _p in ("C01", "C02", "C04", "C06", "C08"):
    PLANS[_p]["drive"] = PLANS[_p]["drive"] + [wide_drive()]

# many batches in one history: more than ten undelegations (the wait list and the history are keyed by batch id; storage
# iterates keys in byte order, so ids with a different number of digits do not iterate numerically), claims spread over them
MENU_MARATHON = {"items": {"bond": 3, "bond_st": 3, "unbond_b": 8, "unbond_st": 6, "advance": 10, "withdraw": 6, "slash_unb": 1, "slash": 1, "transfer_b": 1},
                 "amax": 400, "dts": [3, 4, 6, 8], "slash_div": [2, 10], "probes": ["withdraw", "unbond_b"], "probe_every": 6,
                 "vary": {"fee": [[0, 5000000, 0], [0, 0, 0]], "thr": [[1, 0, 0]], "periods": [[2, 5], [3, 8], [2, 12]]}}


def marathon_drive(runs=(25, 100)):
    return dict(name="marathon", menu=MENU_MARATHON, runs=runs, len=170, consts=dict(MaxBatch=14, T0=1400000000))   # block time at Unix scale


for _p in ("C01", "C07", "C08", "C09"):
    PLANS[_p]["drive"] = PLANS[_p]["drive"] + [marathon_drive()]

# ten validators: plans that spread one payment or one undelegation over many validators (and anything capped or
# ordered by validator count); two-digit validator ids
MENU_MANY = menu(MENU_HUB, items={"add_validator": 1, "remove_validator": 2, "slash": 3, "accrue": 2, "ugi": 2, "set_ext": 0, "from_b": 0, "from_st": 0, "allow_b": 0, "allow_st": 0},
                 amax=400, vary={"fee": [[0, 5000000, 0], [0, 0, 0]], "thr": [[1, 0, 0]], "keeper_rate": [[0, 50000000, 0]], "periods": [[2, 5]],
                                 "init_vals": [[1, 2, 3, 4, 5, 6, 7, 8, 9, 10], [1, 2, 3, 4, 5, 6, 7, 8, 9], [2, 3, 4, 5, 6, 7, 8, 9, 10, 11, 12]]})


def many_drive(runs=(20, 80)):
    return dict(name="hubflow-many", menu=MENU_MANY, runs=runs, len=40, consts=dict(MaxBatch=8, NV=12, InitVals=[1, 2, 3, 4, 5, 6, 7, 8, 9, 10]))


for _p in ("C02", "C04", "C13"):
    PLANS[_p]["drive"] = PLANS[_p]["drive"] + [many_drive()]

# the airdrop flow (ClaimAirdrop -> airdrop contract -> SwapHook -> token Send -> pair -> reward contract), with stub airdrop contracts
AIRDROP_ITEMS = {"set_airdrop": 3, "airdrop_cfg": 2, "airdrop_claim": 4, "airdrop_fab": 3, "ugi_hooks": 4, "index_update": 2, "claim": 2}
PLANS["C19"]["mc"].append(hf_mc("airdrop", extra=dict(Features=["core", "reward", "airdrop"], Amts=[10], RewardAmts=[40, 100], Dts=[3]), depth=(3, 4)))
PLANS["C19"]["sim"].append(hf_sim("airdrop", extra=dict(Features=["core", "reward", "airdrop"], Amts=[10], RewardAmts=[40, 100])))
PLANS["C19"]["drive"].append(dict(name="airdrop", menu=menu(MENU_DISP, items=AIRDROP_ITEMS), runs=(100, 400), len=40, consts=dict(MaxBatch=8)))
PLANS["C11"]["drive"][1]["menu"] = menu(PLANS["C11"]["drive"][1]["menu"], items=AIRDROP_ITEMS)

# peg-fee paths after rewards AND slashing (stSei rate above 1, bSei rate below the threshold), high fee rates
MENU_PEG = {"items": {"bond": 4, "bond_st": 4, "fund_rebond": 4, "bond_rewards": 6, "slash": 4, "convert_st_b": 8, "convert_b_st": 4, "unbond_b": 3, "unbond_st": 1, "advance": 2, "check_slashing": 1},
            "amax": 1000, "dts": [1, 3, 5], "slash_div": [10, 10, 3], "probes": [], "probe_every": 0,
            "vary": {"fee": [[0, 500000000, 0], [0, 333333333, 333333333], [1, 0, 0], [0, 50000000, 0]], "thr": [[1, 0, 0], [0, 950000000, 0]], "periods": [[2, 5]]}}
PLANS["C05"]["drive"] = PLANS["C05"]["drive"] + [dict(name="peg", menu=MENU_PEG, runs=(150, 600), len=40, consts=dict(MaxBatch=8))]
PLANS["C03"]["drive"] = PLANS["C03"]["drive"] + [dict(name="peg", menu=MENU_PEG, runs=(150, 600), len=40, consts=dict(MaxBatch=8))]
# a half-configured hub: fresh instance, dispatcher wired (to a contract that accepts everything), no registry, no tokens
HALF_PREFIX = [{"k": "instantiate", "c": "hub", "sender": "owner2", "epoch": 2, "unbonding": 5, "fee": [0, 0, 0], "thr": [1, 0, 0]},
               ex("owner2", "hub", {"k": "update_config", "dispatcher": "sink", "registry": "", "bsei": "", "stsei": "", "airdrop": "", "rewards": "", "updater": ""})]
# legacy (pre-migration) wait-list entries next to new requests, pause / migrate / unpause cycles
MENU_LEGACY = {"items": {"set_legacy": 4, "unbond_b": 5, "unbond_st": 3, "bond": 3, "bond_st": 2, "pause": 7, "migrate": 3, "advance": 2, "withdraw": 1},
               "amax": 30, "dts": [1, 3, 5], "probes": ["withdraw"], "probe_every": 8}
PLANS["C11"]["drive"] = PLANS["C11"]["drive"] + [dict(name="legacy", menu=MENU_LEGACY, runs=(60, 240), len=30, consts=dict(MaxBatch=8))]

# (new driver entries rather than new items in shared menus: the pseudo-random streams of the existing drivers stay as they are)
# (Inv_C07 relates claims to batch totals; legacy entries injected by the environment have no batch behind them, so in these
# runs only the step formulas of C07 are judged - among them "the migration moves claims, it never creates one")
PLANS["C07"]["drive"] = PLANS["C07"]["drive"] + [dict(name="legacy", menu=MENU_LEGACY, runs=(60, 240), len=30, consts=dict(MaxBatch=8), skip=["Inv_C07"])]
# stake left behind on validators that are no longer registered (removal while redelegation is blocked), then exits
MENU_STRANDED = menu(MENU_HUB, items={"add_validator": 3, "remove_validator": 7, "redelegations": 1, "set_canredel": 5, "unbond_b": 9, "unbond_st": 7, "accrue": 1, "ugi": 1, "set_ext": 0, "slash": 1},
                     vary={"fee": [[0, 5000000, 0], [0, 0, 0]], "thr": [[1, 0, 0]], "periods": [[2, 5]], "init_vals": [[1, 2, 3], [1, 2]]}, amax=200)
PLANS["C09"]["drive"] = PLANS["C09"]["drive"] + [dict(name="stranded", menu=MENU_STRANDED, runs=(60, 240), len=40, consts=dict(MaxBatch=8, NV=3, InitVals=[1, 2, 3]))]

# staged deployments: a fresh hub on which exactly one of the two tokens (or only the registry, or only the reward contract) is registered so far
def _inst(o):
    return {"k": "instantiate", "c": "hub", "sender": o, "epoch": 2, "unbonding": 5, "fee": [0, 0, 0], "thr": [1, 0, 0]}


def _cfg(o, **kw):
    m = {"k": "update_config", "dispatcher": "", "registry": "", "bsei": "", "stsei": "", "airdrop": "", "rewards": "", "updater": ""}
    m.update(kw)
    return ex(o, "hub", m)


STAGED_PREFIXES = [[_inst("owner2"), _cfg("owner2", bsei="bsei")], [_inst("owner2"), _cfg("owner2", stsei="stsei")],
                   [_inst("owner2"), _cfg("owner2", registry="registry", rewards="reward")], [_inst("owner2"), _cfg("owner2", bsei="usr1", dispatcher="dispatcher")],
                   # a dispatcher instantiated without an stSei reward denom (instantiate does not validate it)
                   [{"k": "instantiate", "c": "dispatcher", "sender": "owner2", "rate": [0, 50000000, 0], "stdenom": ""}]]
for _p in ("C10", "C20"):
    PLANS[_p]["drive"] = PLANS[_p]["drive"] + [dict(name="auth-staged", menu=menu(MENU_AUTH, prefixes=STAGED_PREFIXES, items={"owner_cfg": 14, "disp_denom": 3}), runs=(10, 40), len=14, consts=dict(MaxBatch=6, UserFunds=1000))]
for _p in ("C10", "C11", "C20"):
    PLANS[_p]["drive"] = PLANS[_p]["drive"] + [dict(name="auth-half", menu=dict(MENU_AUTH, prefix=HALF_PREFIX), runs=(6, 30), len=18, consts=dict(MaxBatch=6, UserFunds=1000))]

# unbounded amounts: the ledger operations (Ledger.tla, used by Cw20.tla) preserve sum(balances) = supply - Apalache, thorough tier
PLANS["C18"]["apalache"] = [dict(module="Ledger_apa", inv="IndInv", timeout=1500, thorough_only=True)]


# ---- which recorded runs count as non-trivial for a property (evidence: distinct_nontrivial); r = trace line, p = previous line
def _ok(r, c, k):
    t = r["tx"]
    return r["ok"] and t.get("k") == "exec" and t.get("c") == c and t["msg"].get("k") == k


def _hook(r, tok, hook):
    t = r["tx"]
    return r["ok"] and t.get("k") == "exec" and t.get("c") == tok and t["msg"].get("k") in ("send", "send_from") and t["msg"].get("hook") == hook


def _rate_off(r):
    return r["obs"]["rep"]["rateB"] != [1, 0, 0] or r["obs"]["rep"]["rateSt"] != [1, 0, 0]


NONTRIVIAL = {
    "C01": lambda r, p: _ok(r, "hub", "withdraw_unbonded"),
    "C02": lambda r, p: r["ok"] and (len([x for x in r["fx"] if x["t"] == "delegate"]) >= 2 or any(x["t"] == "undelegate" for x in r["fx"])),
    "C03": lambda r, p: p is not None and _rate_off(p) and (_ok(r, "hub", "bond") or _ok(r, "hub", "bond_for_st_sei") or _hook(r, "bsei", "convert") or _hook(r, "stsei", "convert")),
    "C04": lambda r, p: _rate_off(r),
    "C05": lambda r, p: p is not None and p["obs"]["rep"]["rateB"][0] == 0 and (_ok(r, "hub", "bond") or _hook(r, "bsei", "unbond") or _hook(r, "bsei", "convert") or _hook(r, "stsei", "convert")),
    "C06": lambda r, p: r["tx"].get("k") in ("slash", "slash_unb") and r["ok"] and r["st"]["hub"]["bondB"] > 0 and r["st"]["hub"]["bondSt"] > 0,
    "C07": lambda r, p: (_hook(r, "bsei", "unbond") or _hook(r, "stsei", "unbond")) and sum(1 for u in r["st"]["wait"].values() for e in u if e["b"] or e["st"]) >= 2,
    "C08": lambda r, p: len(r["st"]["hist"]) >= 2,
    "C09": lambda r, p: r["tx"].get("k") == "probe" and r["tx"]["tx"]["msg"].get("hook") == "unbond",
    "C10": lambda r, p: r["tx"].get("k") == "probe" or (r["tx"].get("k") == "exec" and not r["ok"]),
    "C11": lambda r, p: r["st"]["hubPar"]["paused"],
    "C13": lambda r, p: _ok(r, "registry", "remove_validator") and any(x["t"] == "redelegate" for x in r["fx"]),
    "C14": lambda r, p: _ok(r, "reward", "claim_rewards"),
    "C15": lambda r, p: p is not None and r["st"]["rew"]["gidx"] != p["st"]["rew"]["gidx"] and sum(1 for h in r["st"]["rew"]["holders"].values() if h["bal"] > 0) >= 2,
    "C16": lambda r, p: r["ok"] and r["tx"].get("k") == "exec" and r["tx"].get("c") == "bsei",
    "C17": lambda r, p: _ok(r, "dispatcher", "dispatch_rewards") or _ok(r, "dispatcher", "swap_to_reward_denom") or _ok(r, "hub", "update_global_index"),
    "C18": lambda r, p: r["ok"] and r["tx"].get("k") == "exec" and r["tx"].get("c") in ("bsei", "stsei") and r["tx"]["msg"].get("k") in ("transfer_from", "send_from", "burn_from"),
    "C19": lambda r, p: _ok(r, "hub", "update_global_index") or (_ok(r, "registry", "remove_validator") and any(x.get("k") == "update_global_index" for x in r["fx"])),
    "C20": lambda r, p: r["tx"].get("k") in ("probe", "exec") and (r["tx"].get("tx", r["tx"]).get("msg", {}).get("k") in ("update_params", "update_config")),
}


# ------------------------------------------------------------------------------------------------
# Explorations (./check explore <name>): environment refinements that *show* what an assumption of section 4 carries.
# Not listed properties, not in MANIFEST.json; a reproduced counterexample is reported as EXPLORATION, never as VIOLATION.
EXPLORE = {}
_E2 = dict(invariants=[], actions=["Act_E2"], rule="released groups without slashing / unsolicited coins",
           mc=[], sim=[], seeded=[])
EXPLORE["E2-paylag"] = dict(_E2, expect="counterexample",
                            hunt=[hf_hunt("lag", consts=dict(PayLag=True), extra=dict(Features=["core"], Dts=[1, 2, 3, 5]))],
                            drive=[dict(name="release-lag", menu=MENU_RELEASE, runs=(60, 240), len=45, consts=dict(MaxBatch=8, PayLag=True))])
EXPLORE["E2-control"] = dict(_E2, expect="none",
                             hunt=[hf_hunt("nolag", extra=dict(Features=["core"], Dts=[1, 2, 3, 5]))],
                             drive=[dict(name="release", menu=MENU_RELEASE, runs=(60, 240), len=45, consts=dict(MaxBatch=8))])

# the SDK's limit of 7 unbonding entries per (delegator, validator): with unbonding_period / epoch_period > 7 the eighth
# undelegation inside one unbonding period is refused by the chain and takes the unbond that triggered it down (C09's exit)
_E2M = dict(invariants=[], actions=["Act_C09"], rule="unbond attempts", mc=[], sim=[], seeded=[], hunt=[])
_MENU_ENTRIES = {"items": {"bond": 5, "unbond_b": 9, "advance": 9, "withdraw": 1}, "amax": 50, "dts": [2], "probes": ["unbond_b"], "probe_every": 5,
                 "vary": {"fee": [[0, 0, 0]], "thr": [[1, 0, 0]], "periods": [[1, 20]]}}
EXPLORE["E2-maxentries"] = dict(_E2M, expect="counterexample",
                                drive=[dict(name="entries", menu=_MENU_ENTRIES, runs=(20, 80), len=120, consts=dict(MaxBatch=14, MaxEntries=True))])
EXPLORE["E2-maxentries-control"] = dict(_E2M, expect="none",
                                        drive=[dict(name="entries", menu=_MENU_ENTRIES, runs=(20, 80), len=120, consts=dict(MaxBatch=14))])
