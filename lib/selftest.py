#!/usr/bin/env python3
"""./check selftest [binding] [mutants [<id> ...]]
 binding : the trace specification really binds - a corrupted logged field / event is rejected
 mutants : every stored source patch (seeded/<id>/patch.diff) is applied to /repo, the owning
           property's quick check must print a VIOLATION for it, and the patch is undone again.
           (Never run while other checks are running: they all build from /repo.)"""
import json, os, shutil, subprocess, sys, glob
sys.path.insert(0, os.path.dirname(os.path.realpath(__file__)))
from vlib import *      # noqa


def binding():
    build_harness()
    w = json.load(open(f"{VERIF}/witness/F1.json"))
    hc = harness_cfg(w["consts"], f"{WORK}/selftest.cfg.json")
    sp = f"{WORK}/selftest.script.json"
    json.dump({"events": w["events"]}, open(sp, "w"))
    tr = f"{WORK}/selftest.ndjson"
    harness(["script", hc, sp, tr])
    lines = open(tr).readlines()
    ok = True

    def run(mut, label, expect_conformant):
        nonlocal ok
        p = f"{WORK}/selftest.{label}.ndjson"
        open(p, "w").writelines(mut)
        # (1) conformance alone: the specification's outcome function must reject the corrupted log
        r = validate(p, w["consts"], [], [], f"selftest.{label}", ["K1", "K2"], parts=1)
        good = r["conformant"] == expect_conformant and not r["errors"]
        # (2) with property monitors on: an untouched log raises nothing
        r2 = validate(p, w["consts"], ["Inv_C01"], ["Act_C01", "Act_C02"], f"selftest.{label}", ["K1", "K2"], parts=1)
        if expect_conformant:
            good = good and not r2["violations"] and r2["conformant"]
        print(f"selftest binding {label}: conformant={r['conformant']} (expected {expect_conformant}); with monitors: violations={[v[0] for v in r2['violations']]} -> {'ok' if good else 'FAILED'}")
        ok = ok and good

    run(lines, "untouched", True)
    # corrupt one projected field of one state
    m = list(lines)
    r3 = json.loads(m[3])
    r3["st"]["hub"]["bondB"] += 1
    m[3] = json.dumps(r3) + "\n"
    run(m, "corrupt-state", False)
    # corrupt one logged argument of one event
    m = list(lines)
    r2 = json.loads(m[2])
    r2["tx"]["funds"][0]["a"] += 1
    m[2] = json.dumps(r2) + "\n"
    run(m, "corrupt-event", False)
    # drop one event (a removed hook)
    m = list(lines)
    del m[4]
    run(m, "dropped-event", False)
    # flip a result
    m = list(lines)
    r9 = json.loads(m[-1])
    r9["ok"] = not r9["ok"]
    m[-1] = json.dumps(r9) + "\n"
    run(m, "flipped-result", False)
    return 0 if ok else 1


def mutants(ids):
    """Each stored change is applied to a scratch worktree of /repo (never to /repo itself); a copy of the harness is pointed at
    the worktree and built in its own target directory; the owning property's quick check must report a VIOLATION.
    Several can run side by side (VERIF_JOBS, default 3); everything is removed afterwards."""
    import concurrent.futures, tempfile
    dirs = sorted(glob.glob(f"{VERIF}/seeded/*/")) + sorted(glob.glob(f"{VERIF}/mutants/*/"))
    todo = []
    for d in dirs:
        name = os.path.basename(d.rstrip("/"))
        if ids and name not in ids:
            continue
        meta = json.load(open(d + "meta.json"))
        todo.append((name, d, meta.get("detected_by") or [meta["property"]], meta.get("expect", "VIOLATION")))

    def one(item):
        name, d, props, expect = item
        base = f"/tmp/krp_mut_{name}"
        wt, hz, wk = base + "_repo", base + "_harness", base + "_work"
        res = []
        try:
            sh(f"git -C /repo worktree remove --force {wt}")
            shutil.rmtree(base + "_harness", ignore_errors=True)
            shutil.rmtree(wk, ignore_errors=True)
            rc, out = sh(f"git -C /repo worktree add -q --detach {wt} HEAD")
            if rc != 0:
                return [(name, "?", 2, "worktree: " + out[-300:])]
            rc, out = sh(f"git -C {wt} apply {d}patch.diff")
            if rc != 0:
                return [(name, "?", 2, "patch does not apply: " + out[-300:])]
            os.makedirs(hz)
            sh(f"cp -r {VERIF}/harness/src {VERIF}/harness/Cargo.lock {VERIF}/harness/.cargo {hz}/")
            ct = open(f"{VERIF}/harness/Cargo.toml").read().replace('"/repo/', f'"{wt}/')
            open(f"{hz}/Cargo.toml", "w").write(ct)
            env = dict(VERIF_HARNESS=hz, VERIF_WORK=wk, VERIF_EVIDENCE=wk + "/evidence", VERIF_REPLAYS=wk + "/replays")
            for p in props:
                c, out = sh(f"{VERIF}/check {p} quick", cwd=VERIF, timeout=7200, env=env)
                v = [l for l in out.splitlines() if l.startswith("VIOLATION")]
                dv = len([l for l in out.splitlines() if l.startswith("DIVERGENCE")])
                res.append((name, p, c, (v[0] if v else "") + (f" [{dv} divergence lines]" if dv else "")))
        finally:
            sh(f"git -C /repo worktree remove --force {wt}")
            shutil.rmtree(hz, ignore_errors=True)
            shutil.rmtree(wk, ignore_errors=True)
        return res

    rc = 0
    jobs = int(os.environ.get("VERIF_JOBS", "3"))
    expects = {t[0]: t[3] for t in todo}
    with concurrent.futures.ThreadPoolExecutor(max_workers=jobs) as ex:
        for results in ex.map(one, todo):
            for name, p, c, info in results:
                if expects.get(name) == "OUT_OF_REACH":
                    good = c in (0, 1)
                    print(f"selftest mutant {name} -> {p}: exit {c} {info} -> documented as out of reach ({'not detected' if c == 0 else 'detected after all'})", flush=True)
                elif expects.get(name) == "SILENT":
                    good = c == 0
                    print(f"selftest benign change {name} -> {p}: exit {c} {info} -> {'silent, as it must be' if good else 'FALSE ALARM'}", flush=True)
                else:
                    good = c == 1 and info.startswith("VIOLATION")
                    print(f"selftest mutant {name} -> {p}: exit {c} {info} -> {'detected' if good else 'MISSED'}", flush=True)
                if not good:
                    rc = 1
    sh("git -C /repo worktree prune")
    return rc


def main(args):
    if not args or args[0] == "binding":
        r = binding()
        if r or (args and args[0] == "binding"):
            return r
    if not args or args[0] == "mutants":
        return mutants(args[1:])
    return 0
