#!/usr/bin/env python3
"""./check selftest [binding] [mutants [<id> ...]]
 binding : the trace specification really binds - a corrupted logged field / event is rejected
 mutants : every stored source patch (seeded/<id>/patch.diff) is applied to /repo, the owning
           property's quick check must print a VIOLATION for it, and the patch is undone again.
           (Never run while other checks are running: they all build from /repo.)"""
import json, os, subprocess, sys, glob
sys.path.insert(0, os.path.dirname(os.path.realpath(__file__)))
from vlib import *      # noqa


def binding():
    build_harness()
    w = json.load(open(f"{VERIF}/witness/F1.json"))
    hc = harness_cfg(w["consts"], f"{WORK}/selftest.cfg.json")
    sp = f"{WORK}/selftest.script.json"
    json.dump({"events": w["events"]}, open(sp, "w"))
    tr = f"{WORK}/selftest.ndjson"
    harness(["script", hc, sp, tr])
    lines = open(tr).readlines()
    ok = True

    def run(mut, label, expect_conformant):
        nonlocal ok
        p = f"{WORK}/selftest.{label}.ndjson"
        open(p, "w").writelines(mut)
        # (1) conformance alone: the specification's outcome function must reject the corrupted log
        r = validate(p, w["consts"], [], [], f"selftest.{label}", ["K1", "K2"], parts=1)
        good = r["conformant"] == expect_conformant and not r["errors"]
        # (2) with property monitors on: an untouched log raises nothing
        r2 = validate(p, w["consts"], ["Inv_C01"], ["Act_C01", "Act_C02"], f"selftest.{label}", ["K1", "K2"], parts=1)
        if expect_conformant:
            good = good and not r2["violations"] and r2["conformant"]
        print(f"selftest binding {label}: conformant={r['conformant']} (expected {expect_conformant}); with monitors: violations={[v[0] for v in r2['violations']]} -> {'ok' if good else 'FAILED'}")
        ok = ok and good

    run(lines, "untouched", True)
    # corrupt one projected field of one state
    m = list(lines)
    r3 = json.loads(m[3])
    r3["st"]["hub"]["bondB"] += 1
    m[3] = json.dumps(r3) + "\n"
    run(m, "corrupt-state", False)
    # corrupt one logged argument of one event
    m = list(lines)
    r2 = json.loads(m[2])
    r2["tx"]["funds"][0]["a"] += 1
    m[2] = json.dumps(r2) + "\n"
    run(m, "corrupt-event", False)
    # drop one event (a removed hook)
    m = list(lines)
    del m[4]
    run(m, "dropped-event", False)
    # flip a result
    m = list(lines)
    r9 = json.loads(m[-1])
    r9["ok"] = not r9["ok"]
    m[-1] = json.dumps(r9) + "\n"
    run(m, "flipped-result", False)
    return 0 if ok else 1


def mutants(ids):
    dirs = sorted(glob.glob(f"{VERIF}/seeded/*/")) + sorted(glob.glob(f"{VERIF}/mutants/*/"))
    rc = 0
    for d in dirs:
        name = os.path.basename(d.rstrip("/"))
        if ids and name not in ids:
            continue
        meta = json.load(open(d + "meta.json"))
        props = meta["detected_by"] if "detected_by" in meta else [meta["property"]]
        st, _ = sh("git -C /repo status --porcelain --untracked-files=no")
        _, dirty = sh("git -C /repo status --porcelain --untracked-files=no")
        if dirty.strip():
            print("selftest mutants: /repo has uncommitted changes; refusing")
            return 2
        a, out = sh(f"git -C /repo apply {d}patch.diff")
        if a != 0:
            print(f"selftest mutant {name}: patch does not apply: {out}")
            rc = 1
            continue
        try:
            for p in props:
                c, out = sh(f"{VERIF}/check {p} quick", cwd=VERIF, timeout=3600)
                v = [l for l in out.splitlines() if l.startswith("VIOLATION")]
                good = c == 1 and v
                print(f"selftest mutant {name} -> {p}: exit {c} {v[0] if v else ''} -> {'detected' if good else 'MISSED'}", flush=True)
                if not good:
                    rc = 1
        finally:
            sh("git -C /repo checkout -- .")
    return rc


def main(args):
    if not args or args[0] == "binding":
        r = binding()
        if r or (args and args[0] == "binding"):
            return r
    if not args or args[0] == "mutants":
        return mutants(args[1:])
    return 0
