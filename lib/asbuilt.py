#!/usr/bin/env python3
"""Rewrite the '* **As built.**' line of every property section of DESIGN.md from lib/plans.py (the source of truth)."""
import os, re, sys
sys.path.insert(0, os.path.dirname(os.path.abspath(__file__)))
from plans import PLANS
V = os.path.dirname(os.path.dirname(os.path.abspath(__file__)))


def line(pid):
    p = PLANS[pid]
    q = lambda xs: ", ".join(f"`{x}`" for x in xs)
    parts = [f"formulas {q(p.get('invariants', []) + p.get('actions', []))} (spec/PropDefs.tla)"]
    if p.get("mc"):
        parts.append("BFS: " + q(f"{j['module']}/{j['name']}" for j in p["mc"]))
    if p.get("hunt"):
        parts.append("hunt: " + q(j["name"] for j in p["hunt"]))
    if p.get("sim"):
        parts.append("replay of simulated behaviours: " + q(j["name"] for j in p["sim"]))
    if p.get("drive"):
        parts.append("drivers: " + q(j["name"] for j in p["drive"]))
    if p.get("gridjobs"):
        parts.append("grid: `MC_Registry` + `RegistryTrace`")
    if p.get("seeded"):
        parts.append("seeded exploration" + (" (thorough)" if all(j.get("thorough_only") for j in p["seeded"]) else ""))
    if p.get("kernel"):
        parts.append("kernel check + Apalache evaluation of the Dec18 definitions")
    if p.get("apalache"):
        parts.append("Apalache inductive invariant " + q(f"{j['module']}!{j['inv']}" for j in p["apalache"]) + " (thorough)")
    return "* **As built.** " + "; ".join(parts) + "."


s = open(f"{V}/DESIGN.md").read().split("\n")
cur = None
n = 0
for i, l in enumerate(s):
    m = re.match(r"### (C\d\d) ", l)
    if m:
        cur = m.group(1)
    if l.startswith("* **As built.**") and cur in PLANS:
        new = line(cur)
        if new != l:
            s[i] = new
            n += 1
open(f"{V}/DESIGN.md", "w").write("\n".join(s))
print(n, "lines updated")
