//! Seeded random drivers over the real contracts.  A driver is a weighted menu of event kinds; each
//! kind picks its parameters from the *current* state (balances, allowances, delegations ...) so
//! that a good share of the transactions succeed, mixed with boundary and invalid values.
//! The output is the specification's event vocabulary (Krp.tla Apply), nothing else.

use crate::*;
use serde_json::{json, Value};

pub struct Rng(pub u64);
impl Rng {
    pub fn new(seed: u64) -> Rng {
        Rng(seed.wrapping_mul(0x9E3779B97F4A7C15) ^ 0xD1B54A32D192ED03 | 1)
    }
    pub fn next(&mut self) -> u64 {
        self.0 ^= self.0 << 13;
        self.0 ^= self.0 >> 7;
        self.0 ^= self.0 << 17;
        self.0
    }
    pub fn below(&mut self, n: u64) -> u64 {
        if n == 0 { 0 } else { self.next() % n }
    }
    pub fn pick<'a, T>(&mut self, v: &'a [T]) -> &'a T {
        &v[self.below(v.len() as u64) as usize]
    }
    pub fn chance(&mut self, num: u64, den: u64) -> bool {
        self.below(den) < num
    }
}

pub struct Menu {
    pub items: Vec<(String, u64)>,
    pub amax: u64,
    pub dts: Vec<u64>,
    pub slash_div: Vec<u64>,
    pub probes: Vec<String>,
    pub prices: Vec<[u64; 3]>,
}
impl Menu {
    pub fn from_json(v: &Value) -> Menu {
        Menu {
            items: v["items"].as_object().unwrap().iter().map(|(k, w)| (k.clone(), w.as_u64().unwrap())).collect(),
            amax: v["amax"].as_u64().unwrap_or(30),
            dts: v["dts"].as_array().map(|a| a.iter().map(|x| x.as_u64().unwrap()).collect()).unwrap_or(vec![1, 2, 3, 5, 6]),
            slash_div: v["slash_div"].as_array().map(|a| a.iter().map(|x| x.as_u64().unwrap()).collect()).unwrap_or(vec![2, 3, 10]),
            probes: v["probes"].as_array().map(|a| a.iter().map(|x| x.as_str().unwrap().to_string()).collect()).unwrap_or_default(),
            prices: v["prices"].as_array().map(|a| a.iter().map(|p| [p[0].as_u64().unwrap(), p[1].as_u64().unwrap(), p[2].as_u64().unwrap()]).collect())
                .unwrap_or(vec![[1, 0, 0], [0, 750000000, 0], [1, 500000000, 0], [0, 333333333, 333333333], [1000, 0, 0], [0, 1000000, 0]]),
        }
    }
    pub fn pick(&self, rng: &mut Rng) -> String {
        let tot: u64 = self.items.iter().map(|x| x.1).sum();
        let mut r = rng.below(tot);
        for (k, w) in &self.items {
            if r < *w {
                return k.clone();
            }
            r -= w;
        }
        self.items[0].0.clone()
    }
}

fn tokbal(c: &Chain, t: &str, u: &str) -> u64 {
    let b: cw20::BalanceResponse = c.q(t, &cw20::Cw20QueryMsg::Balance { address: u.into() });
    b.balance.u128() as u64
}
/// an amount: small, or relative to `have`, or anything up to amax (possibly more than `have`)
fn amount(rng: &mut Rng, have: u64, amax: u64) -> u64 {
    match rng.below(10) {
        0 | 1 | 2 => 1 + rng.below(10.min(amax)),
        3 | 4 => if have > 0 { have } else { 1 },
        5 | 6 => if have > 1 { 1 + rng.below(have) } else { 1 },
        7 => if have > 0 { (have + 1) / 2 } else { 1 },
        8 => have + 1,
        _ => 1 + rng.below(amax),
    }
}
fn exec(sender: &str, c: &str, msg: Value, funds: Value) -> Value {
    json!({"k": "exec", "sender": sender, "c": c, "msg": msg, "funds": funds})
}
fn hook(u: &str, tok: &str, a: u64, h: &str) -> Value {
    exec(u, tok, json!({"k": "send", "contract": "hub", "amount": a, "hook": h}), json!([]))
}
const NONE_EXP: &str = "none";
pub const SENDERS: [&str; 13] = ["owner", "owner2", "hub", "bsei", "stsei", "reward", "dispatcher", "registry", "updater", "keeper", "airdrop", "usr1", "usr2"];
pub const DECS: [[u64; 3]; 8] = [[0, 0, 0], [0, 5000000, 0], [0, 50000000, 0], [0, 500000000, 0], [0, 950000000, 0], [1, 0, 0], [1, 0, 1], [2, 0, 0]];

/// one event of the given kind for the current state (None when the kind makes no sense right now)
pub fn gen(c: &Chain, cfg: &Cfg, m: &Menu, rng: &mut Rng, kind: &str) -> Option<Value> {
    let u = rng.pick(&cfg.users).clone();
    let v = rng.pick(&cfg.users).clone();
    let usei = c.bal(&u, "usei") as u64;
    let none_params = json!({"k": "update_params", "epoch": -1, "unbonding": -1, "fee": [], "thr": [], "rdenom": "", "paused": ""});
    let ev = match kind {
        "bond" => exec(&u, "hub", json!({"k": "bond"}), json!([{"d": "usei", "a": amount(rng, usei.min(m.amax), m.amax).min(usei.max(1))}])),
        "bond_st" => exec(&u, "hub", json!({"k": "bond_for_st_sei"}), json!([{"d": "usei", "a": amount(rng, usei.min(m.amax), m.amax).min(usei.max(1))}])),
        "unbond_b" => hook(&u, "bsei", amount(rng, tokbal(c, "bsei", &u), m.amax), "unbond"),
        "unbond_st" => hook(&u, "stsei", amount(rng, tokbal(c, "stsei", &u), m.amax), "unbond"),
        "convert_b_st" => hook(&u, "bsei", amount(rng, tokbal(c, "bsei", &u), m.amax), "convert"),
        "convert_st_b" => hook(&u, "stsei", amount(rng, tokbal(c, "stsei", &u), m.amax), "convert"),
        "withdraw" => exec(&u, "hub", json!({"k": "withdraw_unbonded"}), json!([])),
        "check_slashing" => exec(&u, "hub", json!({"k": "check_slashing"}), json!([])),
        "transfer_b" | "transfer_st" => {
            let t = if kind == "transfer_b" { "bsei" } else { "stsei" };
            let to = if rng.chance(1, 8) { "hub".to_string() } else { v.clone() };
            exec(&u, t, json!({"k": "transfer", "recipient": to, "amount": amount(rng, tokbal(c, t, &u), m.amax)}), json!([]))
        }
        "allow_b" | "allow_st" => {
            let t = if kind == "allow_b" { "bsei" } else { "stsei" };
            // half of the time an (owner, spender) pair that already has an allowance - a lapsed one if there is one
            let (mut u, mut v) = (u.clone(), v.clone());
            if rng.chance(1, 2) {
                let (mut lapsed, mut live) = (vec![], vec![]);
                for o in &cfg.users {
                    for sp in &cfg.users {
                        if o != sp {
                            let al: cw20::AllowanceResponse = c.q(t, &cw20::Cw20QueryMsg::Allowance { owner: o.clone(), spender: sp.clone() });
                            if !al.allowance.is_zero() {
                                let gone = match al.expires {
                                    cw20::Expiration::AtHeight(h) => c.height >= h,
                                    cw20::Expiration::AtTime(ts) => c.time >= ts.seconds(),
                                    cw20::Expiration::Never {} => false,
                                };
                                if gone { lapsed.push((o.clone(), sp.clone())) } else { live.push((o.clone(), sp.clone())) }
                            }
                        }
                    }
                }
                let pool = if !lapsed.is_empty() && rng.chance(2, 3) { lapsed } else { live };
                if !pool.is_empty() {
                    let p = rng.pick(&pool).clone();
                    u = p.0;
                    v = p.1;
                }
            }
            if u == v {
                return None;
            }
            let exp = match rng.below(6) {
                0 => json!({"k": "never", "v": 0}),
                1 => json!({"k": "time", "v": c.time + rng.below(8)}),
                2 => json!({"k": "height", "v": c.height + rng.below(4)}),
                _ => json!({"k": NONE_EXP, "v": 0}),
            };
            let k = if rng.chance(3, 4) { "increase_allowance" } else { "decrease_allowance" };
            exec(&u, t, json!({"k": k, "spender": v, "amount": 1 + rng.below(m.amax), "expires": exp}), json!([]))
        }
        // zero-amount allowance updates that only carry a (new) expiration
        "allow_zero" => {
            let t = *rng.pick(&["bsei", "stsei"]);
            if u == v {
                return None;
            }
            let exp = if rng.chance(1, 2) { json!({"k": "time", "v": c.time + rng.below(6)}) } else { json!({"k": "height", "v": c.height + rng.below(3)}) };
            exec(&u, t, json!({"k": *rng.pick(&["decrease_allowance", "increase_allowance"]), "spender": v, "amount": 0, "expires": exp}), json!([]))
        }
        "from_b" | "from_st" => {
            let t = if kind == "from_b" { "bsei" } else { "stsei" };
            // v spends u's tokens; three times out of four a pair with a usable allowance, if there is one
            let (mut u, mut v) = (u.clone(), v.clone());
            if rng.chance(3, 4) {
                let mut pairs = vec![];
                for o in &cfg.users {
                    for sp in &cfg.users {
                        if o != sp {
                            let al: cw20::AllowanceResponse = c.q(t, &cw20::Cw20QueryMsg::Allowance { owner: o.clone(), spender: sp.clone() });
                            if !al.allowance.is_zero() && tokbal(c, t, o) > 0 {
                                pairs.push((o.clone(), sp.clone()));
                            }
                        }
                    }
                }
                if !pairs.is_empty() {
                    let p = rng.pick(&pairs).clone();
                    u = p.0;
                    v = p.1;
                }
            }
            if u == v {
                return None;
            }
            let al: cw20::AllowanceResponse = c.q(t, &cw20::Cw20QueryMsg::Allowance { owner: u.clone(), spender: v.clone() });
            let have = (al.allowance.u128() as u64).min(tokbal(c, t, &u));
            let a = amount(rng, have, m.amax);
            match rng.below(4) {
                0 => exec(&v, t, json!({"k": "transfer_from", "owner": u, "recipient": rng.pick(&cfg.users), "amount": a}), json!([])),
                1 => exec(&v, t, json!({"k": "burn_from", "owner": u, "amount": a}), json!([])),
                2 => exec(&v, t, json!({"k": "send_from", "owner": u, "contract": "hub", "amount": a, "hook": "unbond"}), json!([])),
                _ => exec(&v, t, json!({"k": "send_from", "owner": u, "contract": "hub", "amount": a, "hook": "convert"}), json!([])),
            }
        }
        "claim" => exec(&u, "reward", json!({"k": "claim_rewards", "recipient": if rng.chance(1, 4) { v.clone() } else { String::new() }}), json!([])),
        "ugi" => exec("updater", "hub", json!({"k": "update_global_index", "hooks": 0}), json!([])),
        "advance" => json!({"k": "advance", "dt": *rng.pick(&m.dts)}),
        "advance_big" => json!({"k": "advance", "dt": *rng.pick(&[86400u64, 90000, 200000])}),
        "slash" => json!({"k": "slash", "v": 1 + rng.below(cfg.nv), "n": *rng.pick(&m.slash_div)}),
        "slash_unb" => json!({"k": "slash_unb", "v": 1 + rng.below(cfg.nv), "n": *rng.pick(&m.slash_div)}),
        "accrue" => {
            let d = match rng.below(6) {
                0 => "kusd",
                1 => "ufor",
                _ => "usei",
            };
            json!({"k": "accrue", "v": 1 + rng.below(cfg.nv), "d": d, "a": amount(rng, 0, m.amax)})
        }
        "donate" => json!({"k": "donate", "u": u, "a": 1 + rng.below(5)}),
        "set_ext" => {
            let price = *rng.pick(&m.prices);
            json!({"k": "set_ext", "swap": *rng.pick(&["ok", "ok", "fail"]), "oracle": *rng.pick(&["ok", "ok", "fail", "zero"]), "price": price})
        }
        "set_price" => {
            let price = *rng.pick(&m.prices);
            json!({"k": "set_ext", "swap": "ok", "oracle": "ok", "price": price})
        }
        "pause" => {
            let mut p = none_params.clone();
            p["paused"] = json!(*rng.pick(&["t", "f", ""]));
            exec("owner", "hub", p, json!([]))
        }
        "params" => {
            // one field, and one time in three any further field as well (combinations such as pausing together with a new fee)
            let mut p = none_params.clone();
            let first = rng.below(5);
            for f in 0..5 {
                if f == first || rng.chance(1, 3) {
                    match f {
                        0 => p["epoch"] = json!(1 + rng.below(6)),
                        1 => p["fee"] = json!(*rng.pick(&DECS)),
                        2 => p["thr"] = json!(*rng.pick(&DECS)),
                        3 => p["rdenom"] = json!(*rng.pick(&["kusd", "usei"])),
                        _ => p["paused"] = json!(*rng.pick(&["t", "f"])),
                    }
                }
            }
            exec(if rng.chance(7, 8) { "owner" } else { *rng.pick(&SENDERS) }, "hub", p, json!([]))
        }
        "keeper_rate" => exec("owner", "dispatcher", json!({"k": "update_config", "hub_contract": "", "bsei_reward_contract": "", "stsei_reward_denom": "",
            "bsei_reward_denom": "", "krp_keeper_address": *rng.pick(&["", "", "keeper"]), "krp_keeper_rate": *rng.pick(&DECS)}), json!([])),
        // an owner names the stSei reward denom in a dispatcher configuration update (it must never change)
        "disp_denom" => exec(*rng.pick(&["owner", "owner2"]), "dispatcher", json!({"k": "update_config", "hub_contract": "", "bsei_reward_contract": "", "stsei_reward_denom": *rng.pick(&["usei", "usei", "kusd"]),
            "bsei_reward_denom": "", "krp_keeper_address": "", "krp_keeper_rate": []}), json!([])),
        // the dispatcher re-pointed to another hub (a contract that accepts everything) and back
        "disp_hub" => exec("owner", "dispatcher", json!({"k": "update_config", "hub_contract": *rng.pick(&["sink", "sink", "hub"]), "bsei_reward_contract": "", "stsei_reward_denom": "",
            "bsei_reward_denom": "", "krp_keeper_address": "", "krp_keeper_rate": []}), json!([])),
        "add_validator" => exec(if rng.chance(7, 8) { "owner" } else { *rng.pick(&SENDERS) }, "registry", json!({"k": "add_validator", "validator": 1 + rng.below(cfg.nv)}), json!([])),
        "remove_validator" => exec(if rng.chance(7, 8) { "owner" } else { *rng.pick(&SENDERS) }, "registry", json!({"k": "remove_validator", "address": 1 + rng.below(cfg.nv)}), json!([])),
        "redelegations" => exec(&u, "registry", json!({"k": "redelegations", "address": 1 + rng.below(cfg.nv)}), json!([])),
        "set_canredel" => json!({"k": "set_canredel", "v": 1 + rng.below(cfg.nv), "b": rng.chance(2, 3)}),
        "migrate" => exec(&u, "hub", json!({"k": "migrate_unbond_wait_list", "limit": if rng.chance(1, 2) { -1 } else { 1 + rng.below(2) as i64 }}), json!([])),
        "set_legacy" => {
            let mut es = vec![];
            // entries in the first batches and around the current one (a legacy entry may share its key with a new request)
            let cur: basset::hub::CurrentBatchResponse = c.q("hub", &basset::hub::QueryMsg::CurrentBatch {});
            let mut ids: Vec<u64> = vec![1, 2.min(cfg.max_batch), cur.id.min(cfg.max_batch), cur.id.saturating_sub(1).max(1).min(cfg.max_batch)];
            ids.sort();
            ids.dedup();
            for usr in &cfg.users {
                for &i in &ids {
                    if rng.chance(1, 3) {
                        es.push(json!({"u": usr, "i": i, "amt": 1 + rng.below(9)}));
                    }
                }
            }
            json!({"k": "set_legacy", "entries": es})
        }
        "deliver" => json!({"k": "deliver", "d": if rng.chance(9, 10) { "kusd" } else { "usei" }, "a": amount(rng, 0, m.amax)}),
        "fund_disp" => json!({"k": "fund", "to": "dispatcher", "d": *rng.pick(&["usei", "usei", "kusd", "kusd", "ufor"]), "a": match rng.below(4) { 0 => 0, 1 => 1, _ => amount(rng, 0, m.amax) }}),
        "disp_swap" => exec("hub", "dispatcher", json!({"k": "swap_to_reward_denom", "bsei_total_bonded": match rng.below(4) { 0 => 0, _ => amount(rng, 0, m.amax) },
            "stsei_total_bonded": match rng.below(4) { 0 => 0, _ => amount(rng, 0, m.amax) }}), json!([])),
        "disp_dispatch" => exec("hub", "dispatcher", json!({"k": "dispatch_rewards"}), json!([])),
        "set_airdrop" => json!({"k": "set_airdrop", "a": rng.below(m.amax.min(50))}),
        "airdrop_cfg" => exec("owner", "hub", json!({"k": "update_config", "dispatcher": "", "registry": "", "bsei": "", "stsei": "", "airdrop": "airdrop", "rewards": "", "updater": ""}), json!([])),
        "airdrop_claim" => exec(if rng.chance(5, 6) { "airdrop" } else { &u }, "hub", json!({"k": "claim_airdrop", "airdrop_token_contract": "airtoken", "airdrop_contract": "airdropc", "airdrop_swap_contract": "airpair"}), json!([])),
        "airdrop_fab" => exec(&u, "airdrop", json!({"k": "fabricate_claim"}), json!([])),
        "ugi_hooks" => exec("updater", "hub", json!({"k": "update_global_index", "hooks": 1 + rng.below(2)}), json!([])),
        "rew_swapdenom" => exec("owner", "reward", json!({"k": "update_swap_denom", "swap_denom": *rng.pick(&["usei", "ufor", "kusd"]), "is_add": rng.chance(2, 3)}), json!([])),
        "rew_swap" => exec("dispatcher", "reward", json!({"k": "swap_to_reward_denom"}), json!([])),
        "disp_swapdenom" => exec("owner", "dispatcher", json!({"k": "update_swap_denom", "swap_denom": *rng.pick(&["usei", "ufor", "kusd"]), "is_add": rng.chance(3, 4)}), json!([])),
        "fund_rebond" => json!({"k": "fund", "to": "dispatcher", "d": "usei", "a": m.amax / 2 + rng.below(m.amax)}),
        "bond_rewards" => {
            let have = c.bal("dispatcher", "usei") as u64;
            let a = if rng.chance(2, 3) { have.max(1) } else { amount(rng, have, m.amax).min(have.max(1)) };
            exec("dispatcher", "hub", json!({"k": "bond_rewards"}), json!([{"d": "usei", "a": a}]))
        }
        "index_update" => exec("dispatcher", "reward", json!({"k": "update_global_index"}), json!([])),
        "mint_b" => exec("hub", "bsei", json!({"k": "mint", "recipient": u, "amount": 1 + rng.below(m.amax)}), json!([])),
        "burn_b" => exec("hub", "bsei", json!({"k": "burn", "amount": amount(rng, tokbal(c, "bsei", "hub"), m.amax)}), json!([])),
        "tokinit" => {
            let mut init = vec![];
            for _ in 0..rng.below(4) {
                init.push(json!({"a": if rng.chance(1, 5) { "hub".to_string() } else { rng.pick(&cfg.users).clone() }, "x": 1 + rng.below(9)}));
            }
            json!({"k": "instantiate_token", "c": *rng.pick(&["bsei", "stsei"]), "init": init})
        }
        "instantiate" => {
            if rng.chance(1, 2) {
                json!({"k": "instantiate", "c": "hub", "sender": *rng.pick(&["owner", "owner2"]), "epoch": 1 + rng.below(4), "unbonding": 3 + rng.below(4),
                       "fee": *rng.pick(&DECS), "thr": *rng.pick(&DECS)})
            } else {
                json!({"k": "instantiate", "c": "dispatcher", "sender": *rng.pick(&["owner", "owner2"]), "rate": *rng.pick(&DECS), "stdenom": *rng.pick(&["usei", "usei", ""])})
            }
        }
        // two-step ownership hand-over of one of the four ownable contracts, following the current state: the owner nominates
        // the other identity, or the pending nominee accepts (and now and then the outgoing owner tries to accept instead)
        "handover" => {
            let st = project(c, cfg);
            let (contract, key) = *rng.pick(&[("hub", "hubCfg"), ("dispatcher", "disp"), ("reward", "rew"), ("registry", "reg")]);
            let owner = st[key]["owner"].as_str().unwrap_or("owner").to_string();
            let nominee = st[key]["nominee"].as_str().unwrap_or("owner").to_string();
            if nominee != owner && nominee != "" {
                let who = if rng.chance(5, 6) { nominee } else { owner };
                exec(&who, contract, json!({"k": "accept_ownership"}), json!([]))
            } else if rng.chance(1, 4) {
                exec(*rng.pick(&["owner", "owner2"]), contract, json!({"k": "accept_ownership"}), json!([]))
            } else {
                let other = if owner == "owner" { "owner2" } else { "owner" };
                exec(&owner, contract, json!({"k": "set_owner", "new_owner_addr": other}), json!([]))
            }
        }
        "auth" => return Some(crate::auth::random_call(c, cfg, rng)),
        // a configuration update of one of the contracts by one of the owner identities, committed if accepted
        "owner_cfg" => {
            let (contract, k) = *rng.pick(&[("hub", "update_config"), ("hub", "update_config"), ("hub", "update_config"), ("dispatcher", "update_config"), ("reward", "update_config"),
                                            ("registry", "update_config"), ("hub", "update_params")]);
            let ms = crate::auth::templates(contract, k, cfg, rng);
            exec(*rng.pick(&["owner", "owner2"]), contract, rng.pick(&ms).clone(), json!([]))
        }
        _ => return None,
    };
    Some(ev)
}

/// dry-run probes for the outcome-style properties (C01 b, C09, C14): a withdrawal, an unbond of
/// each token and a reward claim by every user on the current state
pub fn probes(c: &Chain, cfg: &Cfg, which: &[String], rng: &mut Rng) -> Vec<Value> {
    let mut out = vec![];
    for u in &cfg.users {
        for k in which {
            let inner = match k.as_str() {
                "withdraw" => exec(u, "hub", json!({"k": "withdraw_unbonded"}), json!([])),
                "claim" => exec(u, "reward", json!({"k": "claim_rewards", "recipient": ""}), json!([])),
                "unbond_b" | "unbond_st" => {
                    let t = if k == "unbond_b" { "bsei" } else { "stsei" };
                    let b = tokbal(c, t, u);
                    if b == 0 {
                        continue;
                    }
                    let a = match rng.below(3) {
                        0 => 1,
                        1 => b,
                        _ => (b + 1) / 2,
                    };
                    hook(u, t, a, "unbond")
                }
                "ugi" => exec("updater", "hub", json!({"k": "update_global_index", "hooks": 0}), json!([])),
                _ => continue,
            };
            out.push(json!({"k": "probe", "tx": inner}));
        }
    }
    out
}
