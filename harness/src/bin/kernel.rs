//! Kernel check input: seeded random cases of the decimal operations the contracts use, computed by
//! the REAL cosmwasm_std::Decimal / Uint128 and cosmwasm_bignumber::{Decimal256, Uint256} code, with
//! operands up to 1e18 (the operating envelope).  Decimals are printed as 18-digit atomics.
//!   kernel <seed> <n> <out>
use cosmwasm_std::{Decimal, Fraction, Uint128};
use krp_harness::drive::Rng;
use std::io::Write;

fn mag(rng: &mut Rng) -> u128 {
    let scale: u128 = *rng.pick(&[10u128, 1_000, 1_000_000, 1_000_000_000, 1_000_000_000_000, 1_000_000_000_000_000_000]);
    1 + (rng.next() as u128 * rng.next() as u128) % scale
}
fn rate(rng: &mut Rng) -> Decimal {
    match rng.below(5) {
        0 => Decimal::one(),
        1 => Decimal::from_ratio(mag(rng), mag(rng).max(1)),
        2 => Decimal::from_ratio(1 + rng.below(1000) as u128, 1000u128),
        3 => Decimal::from_ratio(mag(rng).min(1_000_000_000), 1_000_000_000u128),
        _ => Decimal::from_atomics(Uint128::new(1 + (rng.next() as u128) % 2_000_000_000_000_000_000u128), 18).unwrap(),
    }
}
fn main() {
    let args: Vec<String> = std::env::args().collect();
    let mut rng = Rng::new(args[1].parse().unwrap());
    let n: u64 = args[2].parse().unwrap();
    let mut out = std::io::BufWriter::new(std::fs::File::create(&args[3]).unwrap());
    for _ in 0..n {
        let x = mag(&mut rng);
        let d = rate(&mut rng);
        match rng.below(7) {
            0 => {
                let (a, b) = (mag(&mut rng), mag(&mut rng));
                // keep the quotient within Decimal's range
                if a / b < 100_000_000_000_000_000_000u128 {
                    writeln!(out, "from_ratio {} {} = {}", a, b, Decimal::from_ratio(a, b).atomics()).unwrap();
                }
            }
            1 => writeln!(out, "mul_dec {} {} = {}", x, d.atomics(), Uint128::new(x) * d).unwrap(),
            2 => {
                // Uint256 * Decimal256 (withdraw-rate arithmetic)
                let r = cosmwasm_bignumber::Uint256::from(x) * cosmwasm_bignumber::Decimal256::from(d);
                writeln!(out, "mul_dec {} {} = {}", x, d.atomics(), r).unwrap();
            }
            3 => writeln!(out, "div_dec {} {} = {}", x, d.atomics(), basset_sei_hub::verif_hooks::decimal_division(Uint128::new(x), d)).unwrap(),
            4 => {
                // reward: (global - index) * balance as Decimal256
                let k = mag(&mut rng).min(1_000_000_000_000u128);
                let small = Decimal::from_atomics(Uint128::new(d.atomics().u128() % 1_000_000_000_000_000_000_000u128), 18).unwrap();
                let r = basset_sei_reward::verif_hooks::decimal_multiplication_in_256(small, Decimal::from_ratio(k, 1u128));
                writeln!(out, "dec_mul_int {} {} = {}", small.atomics(), k, r.atomics()).unwrap();
            }
            5 => {
                if let Some(i) = d.inv() {
                    writeln!(out, "dec_inv {} 0 = {}", d.atomics(), i.atomics()).unwrap();
                }
            }
            _ => {
                let (a, b) = (mag(&mut rng), mag(&mut rng));
                writeln!(out, "mul_div {} {} {} = {}", x, a, b, Uint128::new(x).multiply_ratio(a, b)).unwrap();
            }
        }
    }
    println!("{{\"cases\": {}}}", n);
}
