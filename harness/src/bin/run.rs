//! harness driver:
//!   run replay <cfg.json> <tlc-output> <trace-out.ndjson>          replay TLC behaviours on the real contracts
//!   run script <cfg.json> <script.json> <trace-out.ndjson>         execute a list of events (witness / replay files)
//!   run drive  <cfg.json> <menu.json> <trace-out.ndjson> <seed> <runs> <len>   seeded random driver
//! Every executed event is written to the trace with the projected post-state and the answers of
//! the public queries, so that TLC can validate it against the specification (spec/KrpTrace.tla).
use krp_harness::drive::{Menu, Rng};
use krp_harness::*;
use serde_json::{json, Value};
use std::io::{BufRead, BufReader, Write};

struct Tracer {
    out: std::io::BufWriter<std::fs::File>,
    st: Value,
    obs: Value,
    pub lines: u64,
    /// verdict of the stub-independence re-execution for the next line written (true unless computed otherwise)
    pub same: bool,
}
impl Tracer {
    fn new(path: &str) -> Tracer {
        Tracer { out: std::io::BufWriter::new(std::fs::File::create(path).unwrap()), st: Value::Null, obs: Value::Null, lines: 0, same: true }
    }
    /// `changed` = the chain may have changed since the last line (re-project), otherwise reuse
    fn write(&mut self, tx: &Value, o: &Outcome, c: &Chain, cfg: &Cfg, changed: bool) -> bool {
        let same = self.same;
        self.same = true;
        if changed || self.st.is_null() {
            // a query of the contracts that fails (or panics) must not take the harness down: the state keeps its last
            // projection and the observation says that a public query did not answer
            match std::panic::catch_unwind(std::panic::AssertUnwindSafe(|| (project(c, cfg), observe(c, cfg)))) {
                Ok((st, obs)) => {
                    self.st = st;
                    self.obs = obs;
                }
                Err(_) => {
                    if let Some(o) = self.obs.as_object_mut() {
                        o.insert("qok".into(), json!(false));
                    }
                }
            }
        }
        // TLC's integers are 32 bit: a state with a larger number cannot be validated; the caller ends the run there
        if max_num(&self.st) > 1_500_000_000 {
            self.st = Value::Null;
            return false;
        }
        let err = if o.err.contains("bank: zero amount") { "bank: zero amount".to_string() } else { o.err.clone() };
        writeln!(self.out, "{}", json!({"tx": tx, "ok": o.ok, "err": err, "fx": o.fx, "st": self.st, "obs": self.obs, "same": same})).unwrap();
        self.lines += 1;
        true
    }
}

fn max_num(v: &Value) -> u64 {
    match v {
        Value::Number(n) => n.as_u64().unwrap_or(0),
        Value::Array(a) => a.iter().map(max_num).max().unwrap_or(0),
        Value::Object(o) => o.values().map(max_num).max().unwrap_or(0),
        _ => 0,
    }
}

/// a probe is a dry run: executed on a clone, nothing committed
/// to be called BEFORE run_event: the comparison starts from the pre-state
fn stub_check(tr: &mut Tracer, c: &Chain, cfg: &Cfg, tx: &Value) {
    if cfg.stub_compare && is_exit_tx(tx) {
        tr.same = stubs_same(c, cfg, tx);
    }
}

fn run_event(c: &mut Chain, tx: &Value) -> (Outcome, bool) {
    if tx["k"] == "probe" {
        let mut c2 = c.clone();
        (apply(&mut c2, &tx["tx"]), false)
    } else {
        let o = apply(c, tx);
        let changed = o.ok;
        (o, changed)
    }
}

fn vary(base: &Cfg, menu: &Value, rng: &mut Rng) -> Cfg {
    let mut c = base.clone();
    let v = &menu["vary"];
    let pick = |rng: &mut Rng, a: &Value| -> Option<Value> { a.as_array().filter(|x| !x.is_empty()).map(|x| x[rng.below(x.len() as u64) as usize].clone()) };
    if let Some(x) = pick(rng, &v["fee"]) { c.fee = dec_of(&x); }
    if let Some(x) = pick(rng, &v["thr"]) { c.thr = dec_of(&x); }
    if let Some(x) = pick(rng, &v["keeper_rate"]) { c.keeper_rate = dec_of(&x); }
    if let Some(x) = pick(rng, &v["price"]) { c.price = dec_of(&x); }
    if let Some(x) = pick(rng, &v["periods"]) { c.epoch = x[0].as_u64().unwrap(); c.unbonding = x[1].as_u64().unwrap(); }
    if let Some(x) = pick(rng, &v["init_vals"]) { c.init_vals = x.as_array().unwrap().iter().map(|y| y.as_u64().unwrap()).collect(); }
    c
}

fn main() {
    let args: Vec<String> = std::env::args().collect();
    let mode = args[1].as_str();
    let cfgv: Value = serde_json::from_reader(std::fs::File::open(&args[2]).unwrap()).unwrap();
    let cfg = Cfg::from_json(&cfgv);
    std::panic::set_hook(Box::new(|_| {}));
    let base = setup(&cfg);
    let mut tr = Tracer::new(&args[4]);
    let reset = json!({"k": "reset"});
    let okk = || Outcome { ok: true, err: String::new(), fx: vec![] };
    match mode {
        "replay" => {
            let f = BufReader::new(std::fs::File::open(&args[3]).unwrap());
            let (mut traces, mut steps, mut bad) = (0u64, 0u64, 0u64);
            let mut first: Vec<Value> = vec![];
            for l in f.lines() {
                let l = l.unwrap();
                if !l.starts_with("<<\"TRACE\", \"") {
                    continue;
                }
                let inner = &l["<<\"TRACE\", \"".len()..l.len() - "\">>".len()];
                let unesc = inner.replace("\\\"", "\"").replace("\\\\", "\\");
                let states: Vec<Value> = match serde_json::from_str(&unesc) {
                    Ok(s) => s,
                    Err(e) => {
                        eprintln!("cannot parse TRACE line: {}", e);
                        std::process::exit(2);
                    }
                };
                traces += 1;
                let mut c = base.clone();
                tr.write(&reset, &okk(), &c, &cfg, true);
                let mut diverged = false;
                for (i, st) in states.iter().enumerate().skip(1) {
                    let tx = &st["ev"]["tx"];
                    stub_check(&mut tr, &c, &cfg, tx);
                    let (o, changed) = run_event(&mut c, tx);
                    steps += 1;
                    tr.write(tx, &o, &c, &cfg, changed);
                    if !diverged {
                        let mut d = vec![];
                        diff("w", &st["w"], &tr.st, &mut d);
                        diff("obs", &st["obs"], &tr.obs, &mut d);
                        if st["ev"]["ok"].as_bool() != Some(o.ok) {
                            d.push(format!("ok: spec {} impl {} ({})", st["ev"]["ok"], o.ok, o.err));
                        }
                        if o.ok {
                            diff("fx", &st["ev"]["fx"], &Value::Array(o.fx.clone()), &mut d);
                        }
                        if !d.is_empty() {
                            bad += 1;
                            diverged = true;
                            if first.len() < 5 {
                                let prefix: Vec<Value> = states.iter().skip(1).take(i).map(|s| s["ev"]["tx"].clone()).collect();
                                first.push(json!({"trace": traces, "step": i, "tx": tx, "diff": d.iter().take(12).collect::<Vec<_>>(), "impl_err": o.err, "spec_err": st["ev"]["err"], "inputs": prefix}));
                            }
                        }
                    }
                }
            }
            println!("{}", json!({"traces": traces, "steps": steps, "diverged_traces": bad, "first": first, "lines": tr.lines}));
        }
        "script" => {
            let script: Value = serde_json::from_reader(std::fs::File::open(&args[3]).unwrap()).unwrap();
            let mut c = base.clone();
            tr.write(&reset, &okk(), &c, &cfg, true);
            let mut res = vec![];
            for tx in script["events"].as_array().unwrap() {
                stub_check(&mut tr, &c, &cfg, tx);
                let (o, changed) = run_event(&mut c, tx);
                res.push(json!({"tx": tx, "ok": o.ok, "err": o.err}));
                tr.write(tx, &o, &c, &cfg, changed);
            }
            println!("{}", json!({"steps": res, "lines": tr.lines}));
        }
        "drive" => {
            let menuv: Value = serde_json::from_reader(std::fs::File::open(&args[3]).unwrap()).unwrap();
            let menu = Menu::from_json(&menuv);
            let seed: u64 = args[5].parse().unwrap();
            let runs: u64 = args[6].parse().unwrap();
            let len: u64 = args[7].parse().unwrap();
            let probe_every = menuv["probe_every"].as_u64().unwrap_or(0);
            let auth_probes = menuv["auth_probes"].as_bool().unwrap_or(false);
            let prefix0: Vec<Value> = menuv["prefix"].as_array().cloned().unwrap_or_default();
            // "prefixes": several alternative set-up sequences, used round robin
            let prefixes: Vec<Vec<Value>> = menuv["prefixes"].as_array().map(|a| a.iter().map(|p| p.as_array().cloned().unwrap_or_default()).collect()).unwrap_or_default();
            let mut rng = Rng::new(seed);
            let (mut events, mut oks, mut probes_n) = (0u64, 0u64, 0u64);
            let mut kinds: std::collections::BTreeMap<String, (u64, u64)> = Default::default();
            for run_no in 0..runs {
                let prefix: &Vec<Value> = if prefixes.is_empty() { &prefix0 } else { &prefixes[(run_no as usize) % prefixes.len()] };
                let rcfg = vary(&cfg, &menuv, &mut rng);
                let mut c = if menuv["vary"].is_object() { setup(&rcfg) } else { base.clone() };
                tr.write(&reset, &okk(), &c, &rcfg, true);
                for tx in prefix {
                    let (o, changed) = run_event(&mut c, tx);
                    tr.write(tx, &o, &c, &rcfg, changed);
                    events += 1;
                }
                let mut i = 0;
                while i < len {
                    let b: basset::hub::CurrentBatchResponse = c.q("hub", &basset::hub::QueryMsg::CurrentBatch {});
                    if b.id > rcfg.max_batch {
                        break;
                    }
                    let kind = menu.pick(&mut rng);
                    let tx = match drive::gen(&c, &rcfg, &menu, &mut rng, &kind) {
                        Some(t) => t,
                        None => { i += 1; continue; }
                    };
                    stub_check(&mut tr, &c, &rcfg, &tx);
                    let (o, changed) = run_event(&mut c, &tx);
                    let e = kinds.entry(kind.clone()).or_default();
                    e.0 += 1;
                    if o.ok { e.1 += 1; oks += 1; }
                    if !tr.write(&tx, &o, &c, &rcfg, changed) {
                        break;
                    }
                    events += 1;
                    i += 1;
                    let b: basset::hub::CurrentBatchResponse = c.q("hub", &basset::hub::QueryMsg::CurrentBatch {});
                    if b.id > rcfg.max_batch {
                        break; // the specification's wait lists are functions over 1..MaxBatch: no probes beyond it either
                    }
                    if probe_every > 0 && i % probe_every == 0 {
                        let mut ps = drive::probes(&c, &rcfg, &menu.probes, &mut rng);
                        if auth_probes {
                            ps.extend(auth::exhaustive_probes(&c, &rcfg, &mut rng));
                        }
                        for p in ps {
                            let (o, _) = run_event(&mut c, &p);
                            tr.write(&p, &o, &c, &rcfg, false);
                            probes_n += 1;
                        }
                    }
                }
            }
            println!("{}", json!({"runs": runs, "events": events, "ok": oks, "probes": probes_n, "lines": tr.lines, "kinds": kinds.iter().map(|(k, v)| json!([k, v.0, v.1])).collect::<Vec<_>>()}));
        }
        _ => {
            eprintln!("unknown mode");
            std::process::exit(2);
        }
    }
}
