//! harness driver:
//!   run replay <cfg.json> <tlc-output> <trace-out.ndjson>   replay TLC behaviours on the real contracts
//!   run script <cfg.json> <script.json> <trace-out.ndjson>  execute a list of events (witness / replay files)
//! Every executed event is written to the trace with the projected post-state, so that TLC can
//! validate it against the specification (spec/KrpTrace.tla).
use krp_harness::*;
use serde_json::{json, Value};
use std::io::{BufRead, BufReader, Write};

fn line(tx: &Value, o: &Outcome, c: &Chain, cfg: &Cfg) -> Value {
    let err = if o.err.contains("bank: zero amount") { "bank: zero amount".to_string() } else { o.err.clone() };
    json!({"tx": tx, "ok": o.ok, "err": err, "fx": o.fx, "st": project(c, cfg), "obs": observe(c, cfg)})
}

fn main() {
    let args: Vec<String> = std::env::args().collect();
    let mode = args[1].as_str();
    let cfgv: Value = serde_json::from_reader(std::fs::File::open(&args[2]).unwrap()).unwrap();
    let cfg = Cfg::from_json(&cfgv);
    std::panic::set_hook(Box::new(|_| {}));
    let base = setup(&cfg);
    let mut out = std::io::BufWriter::new(std::fs::File::create(&args[4]).unwrap());
    let reset = json!({"k": "reset"});
    let okk = Outcome { ok: true, err: String::new(), fx: vec![] };
    match mode {
        "replay" => {
            let f = BufReader::new(std::fs::File::open(&args[3]).unwrap());
            let (mut traces, mut steps, mut bad) = (0u64, 0u64, 0u64);
            let mut first: Vec<Value> = vec![];
            for l in f.lines() {
                let l = l.unwrap();
                if !l.starts_with("<<\"TRACE\", \"") {
                    continue;
                }
                let inner = &l["<<\"TRACE\", \"".len()..l.len() - "\">>".len()];
                let unesc = inner.replace("\\\"", "\"").replace("\\\\", "\\");
                let states: Vec<Value> = match serde_json::from_str(&unesc) {
                    Ok(s) => s,
                    Err(e) => {
                        eprintln!("cannot parse TRACE line: {}", e);
                        std::process::exit(2);
                    }
                };
                traces += 1;
                let mut c = base.clone();
                writeln!(out, "{}", line(&reset, &okk, &c, &cfg)).unwrap();
                let mut diverged = false;
                for (i, st) in states.iter().enumerate().skip(1) {
                    let tx = &st["ev"]["tx"];
                    let o = apply(&mut c, tx);
                    steps += 1;
                    let got = project(&c, &cfg);
                    if !diverged {
                        let mut d = vec![];
                        diff("w", &st["w"], &got, &mut d);
                        if st["ev"]["ok"].as_bool() != Some(o.ok) {
                            d.push(format!("ok: spec {} impl {} ({})", st["ev"]["ok"], o.ok, o.err));
                        }
                        diff("obs", &st["obs"], &observe(&c, &cfg), &mut d);
                        if o.ok {
                            diff("fx", &st["ev"]["fx"], &Value::Array(o.fx.clone()), &mut d);
                        }
                        if !d.is_empty() {
                            bad += 1;
                            diverged = true;
                            if first.len() < 5 {
                                let prefix: Vec<Value> = states.iter().skip(1).take(i).map(|s| s["ev"]["tx"].clone()).collect();
                                first.push(json!({"trace": traces, "step": i, "tx": tx, "diff": d.iter().take(12).collect::<Vec<_>>(), "impl_err": o.err, "spec_err": st["ev"]["err"], "inputs": prefix}));
                            }
                        }
                    }
                    writeln!(out, "{}", line(tx, &o, &c, &cfg)).unwrap();
                }
            }
            println!("{}", json!({"traces": traces, "steps": steps, "diverged_traces": bad, "first": first}));
        }
        "script" => {
            let script: Value = serde_json::from_reader(std::fs::File::open(&args[3]).unwrap()).unwrap();
            let mut c = base.clone();
            writeln!(out, "{}", line(&reset, &okk, &c, &cfg)).unwrap();
            let mut res = vec![];
            for tx in script["events"].as_array().unwrap() {
                let o = apply(&mut c, tx);
                res.push(json!({"tx": tx, "ok": o.ok, "err": o.err}));
                writeln!(out, "{}", line(tx, &o, &c, &cfg)).unwrap();
            }
            println!("{}", json!({"steps": res}));
        }
        _ => {
            eprintln!("unknown mode");
            std::process::exit(2);
        }
    }
}
