//! C12 function-level conformance: run the REAL calculate_delegations / calculate_undelegations
//!   grid cases <tlc-output> <out.ndjson>        on every case TLC enumerated (lines <<"CASE", "...">>)
//!   grid random <seed> <n> <out.ndjson>         on seeded random cases with entries up to 1.5e8 (sums stay below 2^31, TLC's integer range)
use basset_sei_validators_registry::common::{calculate_delegations, calculate_undelegations};
use basset_sei_validators_registry::registry::ValidatorResponse;
use cosmwasm_std::Uint128;
use krp_harness::drive::Rng;
use serde_json::{json, Value};
use std::io::{BufRead, BufReader, Write};
use std::sync::mpsc;
use std::time::Duration;

fn run_case(d: &[u64], amt: u64) -> Value {
    let vals: Vec<ValidatorResponse> = d.iter().enumerate().map(|(i, x)| ValidatorResponse { total_delegated: Uint128::new(*x as u128), address: format!("val{}", i + 1) }).collect();
    let dl = match std::panic::catch_unwind(|| calculate_delegations(Uint128::new(amt as u128), &vals)) {
        Ok(Ok((rem, plan))) => json!({"ok": true, "rem": rem.u128() as u64, "plan": plan.iter().map(|x| x.u128() as u64).collect::<Vec<_>>()}),
        _ => json!({"ok": false, "rem": amt, "plan": []}),
    };
    // watchdog against non-termination of the `while` loop
    let (tx, rx) = mpsc::channel();
    let v2 = vals.clone();
    std::thread::spawn(move || {
        let r = std::panic::catch_unwind(|| calculate_undelegations(Uint128::new(amt as u128), v2));
        let _ = tx.send(r);
    });
    let ud = match rx.recv_timeout(Duration::from_secs(5)) {
        Ok(Ok(Ok(plan))) => json!({"ok": true, "plan": plan.iter().map(|x| x.u128() as u64).collect::<Vec<_>>(), "fuel": true}),
        Ok(_) => json!({"ok": false, "plan": [], "fuel": true}),
        Err(_) => json!({"ok": false, "plan": [], "fuel": false}),
    };
    json!({"d": d, "amt": amt, "dl": dl, "ud": ud})
}

fn main() {
    let args: Vec<String> = std::env::args().collect();
    std::panic::set_hook(Box::new(|_| {}));
    let mut n = 0u64;
    match args[1].as_str() {
        "cases" => {
            let f = BufReader::new(std::fs::File::open(&args[2]).unwrap());
            let mut out = std::io::BufWriter::new(std::fs::File::create(&args[3]).unwrap());
            for l in f.lines() {
                let l = l.unwrap();
                if !l.starts_with("<<\"CASE\", \"") {
                    continue;
                }
                let inner = &l["<<\"CASE\", \"".len()..l.len() - "\">>".len()];
                let v: Value = serde_json::from_str(&inner.replace("\\\"", "\"")).unwrap();
                let d: Vec<u64> = v["d"].as_array().map(|a| a.iter().map(|x| x.as_u64().unwrap()).collect()).unwrap_or_default();
                writeln!(out, "{}", run_case(&d, v["amt"].as_u64().unwrap())).unwrap();
                n += 1;
            }
        }
        "one" => {
            // grid one <json {"d":[..],"amt":n}> <out>
            let v: Value = serde_json::from_str(&args[2]).unwrap();
            let d: Vec<u64> = v["d"].as_array().map(|a| a.iter().map(|x| x.as_u64().unwrap()).collect()).unwrap_or_default();
            let mut out = std::io::BufWriter::new(std::fs::File::create(&args[3]).unwrap());
            writeln!(out, "{}", run_case(&d, v["amt"].as_u64().unwrap())).unwrap();
            n += 1;
        }
        "random" => {
            let mut rng = Rng::new(args[2].parse().unwrap());
            let cnt: u64 = args[3].parse().unwrap();
            let mut out = std::io::BufWriter::new(std::fs::File::create(&args[4]).unwrap());
            for _ in 0..cnt {
                // mostly short lists; one case in five has up to 14 validators (limits that depend on the validator count)
                let len = if rng.chance(1, 5) { 7 + rng.below(8) } else { rng.below(7) };
                let scale = if len > 7 { *rng.pick(&[3u64, 10, 1000, 1_000_000, 50_000_000]) } else { *rng.pick(&[3u64, 10, 1000, 1_000_000, 150_000_000]) };
                let d: Vec<u64> = (0..len).map(|_| if rng.chance(1, 6) { 0 } else { rng.below(scale) }).collect();
                let tot: u64 = d.iter().sum();
                let amt = match rng.below(6) {
                    0 => 0,
                    1 => tot,
                    2 => tot + 1 + rng.below(5),
                    3 => rng.below(scale.min(100_000_000)),
                    _ => if tot > 0 { rng.below(tot + 1) } else { rng.below(10) },
                };
                writeln!(out, "{}", run_case(&d, amt)).unwrap();
                n += 1;
            }
        }
        "big" => {
            // grid big <seed> <n> <out.txt>: cases with entries between 1e9 and 1e18 (beyond TLC's integers), one TLA+ record per
            // line; the post-conditions of C12 are evaluated on them by Apalache over unbounded integers (spec/BigDistrib.tla.in)
            let mut rng = Rng::new(args[2].parse().unwrap());
            let cnt: u64 = args[3].parse().unwrap();
            let mut out = std::io::BufWriter::new(std::fs::File::create(&args[4]).unwrap());
            let big = |rng: &mut Rng, top: u128| -> u128 { ((rng.below(1_000_000_000) as u128) * 1_000_000_000 + rng.below(1_000_000_000) as u128) % top.max(1) };
            for _ in 0..cnt {
                let len = 1 + rng.below(9) as usize;
                let top: u128 = *rng.pick(&[1_000_000_000u128, 1_000_000_000_000, 1_000_000_000_000_000, 1_000_000_000_000_000_000]);
                let unit: u128 = top / 100;
                let d: Vec<u128> = (0..len).map(|_| match rng.below(6) { 0 => 0, 1 => unit * (1 + rng.below(99) as u128), _ => big(&mut rng, top) }).collect();
                let tot: u128 = d.iter().sum();
                let amt: u128 = match rng.below(7) {
                    0 => tot,
                    1 => unit * (1 + rng.below(300) as u128),
                    2 => (len as u128) * unit * (1 + rng.below(50) as u128) + 1,      // exact multiples of the list length, plus one
                    3 => big(&mut rng, top * 3),
                    _ => if tot > 0 { big(&mut rng, tot + 1) } else { big(&mut rng, top) },
                };
                writeln!(out, "{}", run_big(&d, amt)).unwrap();
                n += 1;
            }
        }
        "bigone" => {
            // grid bigone <d1,d2,...> <amt> <out.txt>
            let d: Vec<u128> = args[2].split(',').filter(|x| !x.is_empty()).map(|x| x.parse().unwrap()).collect();
            let mut out = std::io::BufWriter::new(std::fs::File::create(&args[4]).unwrap());
            writeln!(out, "{}", run_big(&d, args[3].parse().unwrap())).unwrap();
            n += 1;
        }
        _ => std::process::exit(2),
    }
    println!("{}", json!({"cases": n}));
}

fn run_big(d: &[u128], amt: u128) -> String {
    let len = d.len();
    let seq = |v: &[u128]| format!("<<{}>>", v.iter().map(|x| x.to_string()).collect::<Vec<_>>().join(", "));
    {
        {
            {
                let vals: Vec<ValidatorResponse> = d.iter().enumerate().map(|(i, x)| ValidatorResponse { total_delegated: Uint128::new(*x), address: format!("val{}", i + 1) }).collect();
                let (dok, drem, dplan) = match std::panic::catch_unwind(|| calculate_delegations(Uint128::new(amt), &vals)) {
                    Ok(Ok((rem, plan))) => (true, rem.u128(), plan.iter().map(|x| x.u128()).collect::<Vec<_>>()),
                    _ => (false, amt, vec![0u128; len]),
                };
                let (tx, rx) = mpsc::channel();
                let v2 = vals.clone();
                std::thread::spawn(move || {
                    let r = std::panic::catch_unwind(|| calculate_undelegations(Uint128::new(amt), v2));
                    let _ = tx.send(r);
                });
                let (uok, ufuel, uplan) = match rx.recv_timeout(Duration::from_secs(5)) {
                    Ok(Ok(Ok(plan))) => (true, true, plan.iter().map(|x| x.u128()).collect::<Vec<_>>()),
                    Ok(_) => (false, true, vec![0u128; len]),
                    Err(_) => (false, false, vec![0u128; len]),
                };
                let b = |x: bool| if x { "TRUE" } else { "FALSE" };
                return format!("[d |-> {}, amt |-> {}, dok |-> {}, drem |-> {}, dplan |-> {}, uok |-> {}, ufuel |-> {}, uplan |-> {}]",
                               seq(d), amt, b(dok), drem, seq(&dplan), b(uok), b(ufuel), seq(&uplan));
            }
        }
    }
}
