//! C12 function-level conformance: run the REAL calculate_delegations / calculate_undelegations
//!   grid cases <tlc-output> <out.ndjson>        on every case TLC enumerated (lines <<"CASE", "...">>)
//!   grid random <seed> <n> <out.ndjson>         on seeded random cases with entries up to 1.5e8 (sums stay below 2^31, TLC's integer range)
use basset_sei_validators_registry::common::{calculate_delegations, calculate_undelegations};
use basset_sei_validators_registry::registry::ValidatorResponse;
use cosmwasm_std::Uint128;
use krp_harness::drive::Rng;
use serde_json::{json, Value};
use std::io::{BufRead, BufReader, Write};
use std::sync::mpsc;
use std::time::Duration;

fn run_case(d: &[u64], amt: u64) -> Value {
    let vals: Vec<ValidatorResponse> = d.iter().enumerate().map(|(i, x)| ValidatorResponse { total_delegated: Uint128::new(*x as u128), address: format!("val{}", i + 1) }).collect();
    let dl = match std::panic::catch_unwind(|| calculate_delegations(Uint128::new(amt as u128), &vals)) {
        Ok(Ok((rem, plan))) => json!({"ok": true, "rem": rem.u128() as u64, "plan": plan.iter().map(|x| x.u128() as u64).collect::<Vec<_>>()}),
        _ => json!({"ok": false, "rem": amt, "plan": []}),
    };
    // watchdog against non-termination of the `while` loop
    let (tx, rx) = mpsc::channel();
    let v2 = vals.clone();
    std::thread::spawn(move || {
        let r = std::panic::catch_unwind(|| calculate_undelegations(Uint128::new(amt as u128), v2));
        let _ = tx.send(r);
    });
    let ud = match rx.recv_timeout(Duration::from_secs(5)) {
        Ok(Ok(Ok(plan))) => json!({"ok": true, "plan": plan.iter().map(|x| x.u128() as u64).collect::<Vec<_>>(), "fuel": true}),
        Ok(_) => json!({"ok": false, "plan": [], "fuel": true}),
        Err(_) => json!({"ok": false, "plan": [], "fuel": false}),
    };
    json!({"d": d, "amt": amt, "dl": dl, "ud": ud})
}

fn main() {
    let args: Vec<String> = std::env::args().collect();
    std::panic::set_hook(Box::new(|_| {}));
    let mut n = 0u64;
    match args[1].as_str() {
        "cases" => {
            let f = BufReader::new(std::fs::File::open(&args[2]).unwrap());
            let mut out = std::io::BufWriter::new(std::fs::File::create(&args[3]).unwrap());
            for l in f.lines() {
                let l = l.unwrap();
                if !l.starts_with("<<\"CASE\", \"") {
                    continue;
                }
                let inner = &l["<<\"CASE\", \"".len()..l.len() - "\">>".len()];
                let v: Value = serde_json::from_str(&inner.replace("\\\"", "\"")).unwrap();
                let d: Vec<u64> = v["d"].as_array().map(|a| a.iter().map(|x| x.as_u64().unwrap()).collect()).unwrap_or_default();
                writeln!(out, "{}", run_case(&d, v["amt"].as_u64().unwrap())).unwrap();
                n += 1;
            }
        }
        "one" => {
            // grid one <json {"d":[..],"amt":n}> <out>
            let v: Value = serde_json::from_str(&args[2]).unwrap();
            let d: Vec<u64> = v["d"].as_array().map(|a| a.iter().map(|x| x.as_u64().unwrap()).collect()).unwrap_or_default();
            let mut out = std::io::BufWriter::new(std::fs::File::create(&args[3]).unwrap());
            writeln!(out, "{}", run_case(&d, v["amt"].as_u64().unwrap())).unwrap();
            n += 1;
        }
        "random" => {
            let mut rng = Rng::new(args[2].parse().unwrap());
            let cnt: u64 = args[3].parse().unwrap();
            let mut out = std::io::BufWriter::new(std::fs::File::create(&args[4]).unwrap());
            for _ in 0..cnt {
                let len = rng.below(7);
                let scale = *rng.pick(&[3u64, 10, 1000, 1_000_000, 150_000_000]);
                let d: Vec<u64> = (0..len).map(|_| if rng.chance(1, 6) { 0 } else { rng.below(scale) }).collect();
                let tot: u64 = d.iter().sum();
                let amt = match rng.below(6) {
                    0 => 0,
                    1 => tot,
                    2 => tot + 1 + rng.below(5),
                    3 => rng.below(scale.min(100_000_000)),
                    _ => if tot > 0 { rng.below(tot + 1) } else { rng.below(10) },
                };
                writeln!(out, "{}", run_case(&d, amt)).unwrap();
                n += 1;
            }
        }
        _ => std::process::exit(2),
    }
    println!("{}", json!({"cases": n}));
}
