//! Every message variant of every contract with representative arguments, for the exhaustive
//! (state x message x sender) enumeration behind C10 / C11 / C20.
use crate::drive::{Rng, DECS, SENDERS};
use crate::msgs::*;
use crate::*;
use serde_json::{json, Value};

fn exec(sender: &str, c: &str, msg: Value, funds: Value) -> Value {
    json!({"k": "exec", "sender": sender, "c": c, "msg": msg, "funds": funds})
}

/// representative messages of one kind; `r` varies optional fields and values
pub fn templates(contract: &str, k: &str, cfg: &Cfg, rng: &mut Rng) -> Vec<Value> {
    let u1 = cfg.users[0].clone();
    let u2 = cfg.users[cfg.users.len() - 1].clone();
    let addr = |rng: &mut Rng| -> String { rng.pick(&["", "", "", "owner2", "hub", "dispatcher", "registry", "reward", "usr1", "sink", "sink"]).to_string() };
    let dec_opt = |rng: &mut Rng| -> Value { if rng.chance(1, 3) { json!([]) } else { json!(*rng.pick(&DECS)) } };
    let v = 1 + rng.below(cfg.nv);
    match (contract, k) {
        ("hub", "bond") | ("hub", "bond_for_st_sei") | ("hub", "bond_rewards") => vec![json!({"k": k})],
        ("hub", "withdraw_unbonded") | ("hub", "check_slashing") | ("hub", "accept_ownership") => vec![json!({"k": k})],
        ("hub", "set_owner") => vec![json!({"k": k, "new_owner_addr": *rng.pick(&["owner2", "owner", "usr1"])})],
        ("hub", "update_global_index") => vec![json!({"k": k, "hooks": 0}), json!({"k": k, "hooks": 1})],
        ("hub", "update_params") => vec![json!({"k": k, "epoch": if rng.chance(1, 2) { -1 } else { 1 + rng.below(5) as i64 }, "unbonding": if rng.chance(2, 3) { -1 } else { 4 + rng.below(3) as i64 },
            "fee": dec_opt(rng), "thr": dec_opt(rng), "rdenom": *rng.pick(&["", "", "kusd", "usei"]), "paused": *rng.pick(&["", "t", "f"])})],
        ("hub", "update_config") => vec![json!({"k": k, "dispatcher": addr(rng), "registry": addr(rng), "bsei": *rng.pick(&["", "", "bsei", "usr1"]), "stsei": *rng.pick(&["", "", "stsei", "usr1"]),
            "airdrop": *rng.pick(&["", "airdrop"]), "rewards": addr(rng), "updater": *rng.pick(&["", "updater", "usr1"])})],
        ("hub", "receive") => vec![json!({"k": k, "sender": u1, "amount": 1 + rng.below(5), "hook": *rng.pick(&["unbond", "convert"])})],
        ("hub", "swap_hook") => vec![json!({"k": k, "airdrop_token_contract": "airtoken", "airdrop_swap_contract": "airpair"})],
        ("hub", "claim_airdrop") => vec![json!({"k": k, "airdrop_token_contract": "airtoken", "airdrop_contract": "airdropc", "airdrop_swap_contract": "airpair"})],
        ("hub", "redelegate_proxy") => vec![json!({"k": k, "src": v, "redelegations": [{"v": 1 + rng.below(cfg.nv), "a": 1}]})],
        ("hub", "migrate_unbond_wait_list") => vec![json!({"k": k, "limit": -1})],
        ("bsei", "transfer") | ("stsei", "transfer") => vec![json!({"k": k, "recipient": u2, "amount": 1})],
        ("bsei", "burn") | ("stsei", "burn") => vec![json!({"k": k, "amount": 1})],
        ("bsei", "send") | ("stsei", "send") => vec![json!({"k": k, "contract": "hub", "amount": 1, "hook": *rng.pick(&["unbond", "convert"])})],
        ("bsei", "mint") | ("stsei", "mint") => vec![json!({"k": k, "recipient": u1, "amount": 1 + rng.below(5)})],
        ("bsei", "increase_allowance") | ("stsei", "increase_allowance") | ("bsei", "decrease_allowance") | ("stsei", "decrease_allowance") =>
            vec![json!({"k": k, "spender": u2, "amount": 1 + rng.below(5), "expires": {"k": "none", "v": 0}})],
        ("bsei", "transfer_from") | ("stsei", "transfer_from") => vec![json!({"k": k, "owner": u1, "recipient": u2, "amount": 1})],
        ("bsei", "burn_from") | ("stsei", "burn_from") => vec![json!({"k": k, "owner": u1, "amount": 1})],
        ("bsei", "send_from") | ("stsei", "send_from") => vec![json!({"k": k, "owner": u1, "contract": "hub", "amount": 1, "hook": "unbond"})],
        ("stsei", "update_minter") => vec![json!({"k": k, "new_minter": *rng.pick(&["", "usr1", "hub"])})],
        ("stsei", "update_marketing") => vec![json!({"k": k, "marketing": *rng.pick(&["-", "", "usr1", "owner"])})],
        ("stsei", "upload_logo") => vec![json!({"k": k})],
        ("reward", "claim_rewards") => vec![json!({"k": k, "recipient": ""})],
        ("reward", "update_config") => vec![json!({"k": k, "hub_contract": *rng.pick(&["", "", "hub", "usr1"]), "reward_denom": *rng.pick(&["", "", "kusd", "usei"]), "swap_contract": *rng.pick(&["", "swap", "usr1"])})],
        ("reward", "set_owner") | ("dispatcher", "set_owner") | ("registry", "set_owner") => vec![json!({"k": k, "new_owner_addr": *rng.pick(&["owner2", "owner", "usr1"])})],
        ("reward", "accept_ownership") | ("dispatcher", "accept_ownership") | ("registry", "accept_ownership") => vec![json!({"k": k})],
        ("reward", "swap_to_reward_denom") | ("reward", "update_global_index") => vec![json!({"k": k})],
        ("reward", "increase_balance") | ("reward", "decrease_balance") => vec![json!({"k": k, "address": u1, "amount": 1 + rng.below(3)})],
        ("reward", "update_swap_denom") | ("dispatcher", "update_swap_denom") => vec![json!({"k": k, "swap_denom": *rng.pick(&["ufor", "usei", "kusd"]), "is_add": rng.chance(1, 2)})],
        ("dispatcher", "swap_to_reward_denom") => vec![json!({"k": k, "bsei_total_bonded": 1 + rng.below(20), "stsei_total_bonded": 1 + rng.below(20)})],
        ("dispatcher", "dispatch_rewards") => vec![json!({"k": k})],
        ("dispatcher", "update_config") => vec![json!({"k": k, "hub_contract": *rng.pick(&["", "", "hub", "usr1"]), "bsei_reward_contract": *rng.pick(&["", "", "reward", "usr1"]),
            "stsei_reward_denom": *rng.pick(&["", "", "", "usei", "kusd"]), "bsei_reward_denom": *rng.pick(&["", "", "kusd", "usei"]),
            "krp_keeper_address": *rng.pick(&["", "keeper", "usr1"]), "krp_keeper_rate": dec_opt(rng)})],
        ("dispatcher", "update_swap_contract") => vec![json!({"k": k, "swap_contract": *rng.pick(&["swap", "usr1"])})],
        ("dispatcher", "update_oracle_contract") => vec![json!({"k": k, "oracle_contract": *rng.pick(&["oracle", "usr1"])})],
        ("registry", "add_validator") => vec![json!({"k": k, "validator": v})],
        ("registry", "remove_validator") | ("registry", "redelegations") => vec![json!({"k": k, "address": v})],
        ("registry", "update_config") => vec![json!({"k": k, "hub_contract": *rng.pick(&["", "hub", "usr1"])})],
        _ => vec![],
    }
}

pub fn all_kinds() -> Vec<(&'static str, &'static str)> {
    let mut v = vec![];
    for k in HUB_KINDS { v.push(("hub", k)); }
    for k in BSEI_KINDS { v.push(("bsei", k)); }
    for k in STSEI_KINDS { v.push(("stsei", k)); }
    for k in REWARD_KINDS { v.push(("reward", k)); }
    for k in DISPATCHER_KINDS { v.push(("dispatcher", k)); }
    for k in REGISTRY_KINDS { v.push(("registry", k)); }
    v
}

fn funds_for(contract: &str, k: &str, rng: &mut Rng) -> Value {
    if contract == "hub" && (k == "bond" || k == "bond_for_st_sei" || k == "bond_rewards") {
        match rng.below(6) {
            0 => json!([]),
            1 => json!([{"d": "kusd", "a": 1}]),
            _ => json!([{"d": "usei", "a": 1 + rng.below(5)}]),
        }
    } else {
        json!([])
    }
}

/// the specification keeps allowances only for the modelled token accounts (Accts)
fn outside_model(cfg: &Cfg, contract: &str, k: &str, sender: &str) -> bool {
    (contract == "bsei" || contract == "stsei") && (k == "increase_allowance" || k == "decrease_allowance") && !cfg.accts().iter().any(|a| a == sender)
}

/// every (message kind x sender) on the current state, as dry-run probes
pub fn exhaustive_probes(_c: &Chain, cfg: &Cfg, rng: &mut Rng) -> Vec<Value> {
    let mut out = vec![];
    for (contract, k) in all_kinds() {
        for m in templates(contract, k, cfg, rng) {
            for s in SENDERS {
                if outside_model(cfg, contract, k, s) {
                    continue;
                }
                out.push(json!({"k": "probe", "tx": exec(s, contract, m.clone(), funds_for(contract, k, rng))}));
            }
        }
    }
    out
}

/// a random call (any contract, any message, any sender) that is committed if it succeeds;
/// biased towards the designated principals so that configurations actually evolve
pub fn random_call(_c: &Chain, cfg: &Cfg, rng: &mut Rng) -> Value {
    let kinds = all_kinds();
    let (contract, k) = *rng.pick(&kinds);
    let ms = templates(contract, k, cfg, rng);
    let m = rng.pick(&ms).clone();
    // (either of the two owner identities: after a fresh instantiate or a hand-over the owner is "owner2")
    let mut s = if rng.chance(1, 2) { *rng.pick(&["owner", "owner", "owner2"]) } else { *rng.pick(&SENDERS) };
    if outside_model(cfg, contract, k, s) {
        s = "usr1";
    }
    exec(s, contract, m, funds_for(contract, k, rng))
}
