//! Translation of the specification's message records (flat records with a kind `k`) into the
//! real, typed ExecuteMsg values of the six contracts.  `kind_of_*` are exhaustive matches over the
//! real enums: a new message variant in /repo fails compilation here instead of going unexamined.

use cosmwasm_std::{to_json_binary, Binary, Coin, Decimal, Timestamp, Uint128};
use cw_utils::Expiration;
use serde_json::Value;

use crate::{dec_of, val_name};

fn s(v: &Value, k: &str) -> String {
    v[k].as_str().unwrap_or("").to_string()
}
fn opt_s(v: &Value, k: &str) -> Option<String> {
    match v[k].as_str() {
        Some("") | None => None,
        Some(x) => Some(x.to_string()),
    }
}
fn u(v: &Value, k: &str) -> Uint128 {
    Uint128::new(v[k].as_u64().unwrap_or(0) as u128)
}
fn opt_u64(v: &Value, k: &str) -> Option<u64> {
    match v[k].as_i64() {
        Some(x) if x >= 0 => Some(x as u64),
        _ => None,
    }
}
fn opt_dec(v: &Value, k: &str) -> Option<Decimal> {
    match v[k].as_array() {
        Some(a) if a.len() == 3 => Some(dec_of(&v[k])),
        _ => None,
    }
}
fn opt_exp(v: &Value, k: &str) -> Option<Expiration> {
    match v[k]["k"].as_str() {
        Some("never") => Some(Expiration::Never {}),
        Some("height") => Some(Expiration::AtHeight(v[k]["v"].as_u64().unwrap())),
        Some("time") => Some(Expiration::AtTime(Timestamp::from_seconds(v[k]["v"].as_u64().unwrap()))),
        _ => None,
    }
}
fn hook(v: &Value) -> Binary {
    match v["hook"].as_str() {
        Some("unbond") => to_json_binary(&basset::hub::Cw20HookMsg::Unbond {}).unwrap(),
        Some("convert") => to_json_binary(&basset::hub::Cw20HookMsg::Convert {}).unwrap(),
        _ => Binary::from(b"{\"garbage\":{}}".to_vec()),
    }
}

pub fn build(contract: &str, m: &Value) -> Result<Binary, String> {
    let k = m["k"].as_str().ok_or("message without kind")?;
    let b = match contract {
        "hub" => build_hub(k, m)?,
        "bsei" => build_bsei(k, m)?,
        "stsei" => build_stsei(k, m)?,
        "reward" => build_reward(k, m)?,
        "dispatcher" => build_dispatcher(k, m)?,
        "registry" => build_registry(k, m)?,
        "swap" => match k {
            "swap_denom" => to_json_binary(&basset::swap_ext::SwapExecteMsg::SwapDenom {
                from_coin: Coin::new(m["from_a"].as_u64().unwrap_or(0) as u128, s(m, "from_d")),
                target_denom: s(m, "target"),
                to_address: opt_s(m, "to"),
            }),
            _ => return Err(format!("unknown swap message {}", k)),
        },
        "airtoken" if k == "send" => Ok(Binary::from(format!("{{\"send\":{{\"contract\":\"{}\",\"amount\":\"{}\",\"msg\":\"e30=\"}}}}", s(m, "contract"), m["amount"].as_u64().unwrap_or(0)).into_bytes())),
        "airpair" if k == "receive" => Ok(Binary::from(format!("{{\"receive\":{{\"sender\":\"{}\",\"amount\":\"{}\",\"msg\":\"e30=\"}}}}", s(m, "sender"), m["amount"].as_u64().unwrap_or(0)).into_bytes())),
        _ => Ok(Binary::from(format!("{{\"{}\":{{}}}}", k).into_bytes())),
    };
    b.map_err(|e| e.to_string())
}

fn build_hub(k: &str, m: &Value) -> Result<Result<Binary, cosmwasm_std::StdError>, String> {
    use basset::hub::ExecuteMsg as H;
    let msg = match k {
        "bond" => H::Bond {},
        "bond_for_st_sei" => H::BondForStSei {},
        "bond_rewards" => H::BondRewards {},
        "withdraw_unbonded" => H::WithdrawUnbonded {},
        "check_slashing" => H::CheckSlashing {},
        "accept_ownership" => H::AcceptOwnership {},
        "set_owner" => H::SetOwner { new_owner_addr: s(m, "new_owner_addr") },
        "update_global_index" => H::UpdateGlobalIndex {
            airdrop_hooks: match m["hooks"].as_u64().unwrap_or(0) {
                0 => None,
                n => Some(vec![Binary::from(b"{\"fabricate_claim\":{}}".to_vec()); n as usize]),
            },
        },
        "update_params" => H::UpdateParams {
            epoch_period: opt_u64(m, "epoch"),
            unbonding_period: opt_u64(m, "unbonding"),
            peg_recovery_fee: opt_dec(m, "fee"),
            er_threshold: opt_dec(m, "thr"),
            reward_denom: opt_s(m, "rdenom"),
            paused: match m["paused"].as_str() {
                Some("t") => Some(true),
                Some("f") => Some(false),
                _ => None,
            },
        },
        "update_config" => H::UpdateConfig {
            rewards_dispatcher_contract: opt_s(m, "dispatcher"),
            validators_registry_contract: opt_s(m, "registry"),
            bsei_token_contract: opt_s(m, "bsei"),
            stsei_token_contract: opt_s(m, "stsei"),
            airdrop_registry_contract: opt_s(m, "airdrop"),
            rewards_contract: opt_s(m, "rewards"),
            update_reward_index_addr: opt_s(m, "updater"),
        },
        "receive" => H::Receive(cw20::Cw20ReceiveMsg { sender: s(m, "sender"), amount: u(m, "amount"), msg: hook(m) }),
        "swap_hook" => H::SwapHook {
            airdrop_token_contract: s(m, "airdrop_token_contract"),
            airdrop_swap_contract: s(m, "airdrop_swap_contract"),
            swap_msg: Binary::from(b"{}".to_vec()),
        },
        "claim_airdrop" => H::ClaimAirdrop {
            airdrop_token_contract: s(m, "airdrop_token_contract"),
            airdrop_contract: s(m, "airdrop_contract"),
            airdrop_swap_contract: s(m, "airdrop_swap_contract"),
            claim_msg: Binary::from(b"{\"claim\":{}}".to_vec()),
            swap_msg: Binary::from(b"{}".to_vec()),
        },
        "redelegate_proxy" => H::RedelegateProxy {
            src_validator: val_name(m["src"].as_u64().unwrap_or(0)),
            redelegations: m["redelegations"]
                .as_array()
                .map(|a| a.iter().map(|r| (val_name(r["v"].as_u64().unwrap_or(0)), Coin::new(r["a"].as_u64().unwrap_or(0) as u128, "usei"))).collect())
                .unwrap_or_default(),
        },
        "migrate_unbond_wait_list" => H::MigrateUnbondWaitList { limit: opt_u64(m, "limit").map(|x| x as u32) },
        _ => return Err(format!("unknown hub message {}", k)),
    };
    debug_assert_eq!(kind_of_hub(&msg), k);
    Ok(to_json_binary(&msg))
}

pub fn kind_of_hub(m: &basset::hub::ExecuteMsg) -> &'static str {
    use basset::hub::ExecuteMsg as H;
    match m {
        H::UpdateConfig { .. } => "update_config",
        H::UpdateParams { .. } => "update_params",
        H::SetOwner { .. } => "set_owner",
        H::AcceptOwnership {} => "accept_ownership",
        H::Bond {} => "bond",
        H::BondForStSei {} => "bond_for_st_sei",
        H::BondRewards {} => "bond_rewards",
        H::UpdateGlobalIndex { .. } => "update_global_index",
        H::WithdrawUnbonded {} => "withdraw_unbonded",
        H::CheckSlashing {} => "check_slashing",
        H::Receive(_) => "receive",
        H::ClaimAirdrop { .. } => "claim_airdrop",
        H::SwapHook { .. } => "swap_hook",
        H::RedelegateProxy { .. } => "redelegate_proxy",
        H::MigrateUnbondWaitList { .. } => "migrate_unbond_wait_list",
    }
}
pub const HUB_KINDS: [&str; 15] = [
    "update_config", "update_params", "set_owner", "accept_ownership", "bond", "bond_for_st_sei", "bond_rewards",
    "update_global_index", "withdraw_unbonded", "check_slashing", "receive", "claim_airdrop", "swap_hook",
    "redelegate_proxy", "migrate_unbond_wait_list",
];

fn build_bsei(k: &str, m: &Value) -> Result<Result<Binary, cosmwasm_std::StdError>, String> {
    use cw20_legacy::msg::ExecuteMsg as T;
    let msg = match k {
        "transfer" => T::Transfer { recipient: s(m, "recipient"), amount: u(m, "amount") },
        "burn" => T::Burn { amount: u(m, "amount") },
        "send" => T::Send { contract: s(m, "contract"), amount: u(m, "amount"), msg: hook(m) },
        "mint" => T::Mint { recipient: s(m, "recipient"), amount: u(m, "amount") },
        "increase_allowance" => T::IncreaseAllowance { spender: s(m, "spender"), amount: u(m, "amount"), expires: opt_exp(m, "expires") },
        "decrease_allowance" => T::DecreaseAllowance { spender: s(m, "spender"), amount: u(m, "amount"), expires: opt_exp(m, "expires") },
        "transfer_from" => T::TransferFrom { owner: s(m, "owner"), recipient: s(m, "recipient"), amount: u(m, "amount") },
        "burn_from" => T::BurnFrom { owner: s(m, "owner"), amount: u(m, "amount") },
        "send_from" => T::SendFrom { owner: s(m, "owner"), contract: s(m, "contract"), amount: u(m, "amount"), msg: hook(m) },
        _ => return Err(format!("unknown bsei message {}", k)),
    };
    debug_assert_eq!(kind_of_bsei(&msg), k);
    Ok(to_json_binary(&msg))
}
pub fn kind_of_bsei(m: &cw20_legacy::msg::ExecuteMsg) -> &'static str {
    use cw20_legacy::msg::ExecuteMsg as T;
    match m {
        T::Transfer { .. } => "transfer",
        T::Burn { .. } => "burn",
        T::Send { .. } => "send",
        T::Mint { .. } => "mint",
        T::IncreaseAllowance { .. } => "increase_allowance",
        T::DecreaseAllowance { .. } => "decrease_allowance",
        T::TransferFrom { .. } => "transfer_from",
        T::BurnFrom { .. } => "burn_from",
        T::SendFrom { .. } => "send_from",
    }
}
pub const BSEI_KINDS: [&str; 9] = [
    "transfer", "burn", "send", "mint", "increase_allowance", "decrease_allowance", "transfer_from", "burn_from", "send_from",
];

fn build_stsei(k: &str, m: &Value) -> Result<Result<Binary, cosmwasm_std::StdError>, String> {
    use cw20_base::msg::ExecuteMsg as T;
    let msg = match k {
        "transfer" => T::Transfer { recipient: s(m, "recipient"), amount: u(m, "amount") },
        "burn" => T::Burn { amount: u(m, "amount") },
        "send" => T::Send { contract: s(m, "contract"), amount: u(m, "amount"), msg: hook(m) },
        "mint" => T::Mint { recipient: s(m, "recipient"), amount: u(m, "amount") },
        "increase_allowance" => T::IncreaseAllowance { spender: s(m, "spender"), amount: u(m, "amount"), expires: opt_exp(m, "expires") },
        "decrease_allowance" => T::DecreaseAllowance { spender: s(m, "spender"), amount: u(m, "amount"), expires: opt_exp(m, "expires") },
        "transfer_from" => T::TransferFrom { owner: s(m, "owner"), recipient: s(m, "recipient"), amount: u(m, "amount") },
        "burn_from" => T::BurnFrom { owner: s(m, "owner"), amount: u(m, "amount") },
        "send_from" => T::SendFrom { owner: s(m, "owner"), contract: s(m, "contract"), amount: u(m, "amount"), msg: hook(m) },
        "update_minter" => T::UpdateMinter { new_minter: opt_s(m, "new_minter") },
        "update_marketing" => T::UpdateMarketing {
            project: None,
            description: None,
            marketing: match m["marketing"].as_str() {
                Some("-") | None => None,
                Some(x) => Some(x.to_string()),
            },
        },
        "upload_logo" => T::UploadLogo(cw20::Logo::Url("https://example.org/logo.png".into())),
        _ => return Err(format!("unknown stsei message {}", k)),
    };
    debug_assert_eq!(kind_of_stsei(&msg), k);
    Ok(to_json_binary(&msg))
}
pub fn kind_of_stsei(m: &cw20_base::msg::ExecuteMsg) -> &'static str {
    use cw20_base::msg::ExecuteMsg as T;
    match m {
        T::Transfer { .. } => "transfer",
        T::Burn { .. } => "burn",
        T::Send { .. } => "send",
        T::Mint { .. } => "mint",
        T::IncreaseAllowance { .. } => "increase_allowance",
        T::DecreaseAllowance { .. } => "decrease_allowance",
        T::TransferFrom { .. } => "transfer_from",
        T::BurnFrom { .. } => "burn_from",
        T::SendFrom { .. } => "send_from",
        T::UpdateMinter { .. } => "update_minter",
        T::UpdateMarketing { .. } => "update_marketing",
        T::UploadLogo(_) => "upload_logo",
    }
}
pub const STSEI_KINDS: [&str; 12] = [
    "transfer", "burn", "send", "mint", "increase_allowance", "decrease_allowance", "transfer_from", "burn_from", "send_from",
    "update_minter", "update_marketing", "upload_logo",
];

fn build_reward(k: &str, m: &Value) -> Result<Result<Binary, cosmwasm_std::StdError>, String> {
    use basset::reward::ExecuteMsg as R;
    let msg = match k {
        "claim_rewards" => R::ClaimRewards { recipient: opt_s(m, "recipient") },
        "update_config" => R::UpdateConfig { hub_contract: opt_s(m, "hub_contract"), reward_denom: opt_s(m, "reward_denom"), swap_contract: opt_s(m, "swap_contract") },
        "set_owner" => R::SetOwner { new_owner_addr: s(m, "new_owner_addr") },
        "accept_ownership" => R::AcceptOwnership {},
        "swap_to_reward_denom" => R::SwapToRewardDenom {},
        "update_global_index" => R::UpdateGlobalIndex {},
        "increase_balance" => R::IncreaseBalance { address: s(m, "address"), amount: u(m, "amount") },
        "decrease_balance" => R::DecreaseBalance { address: s(m, "address"), amount: u(m, "amount") },
        "update_swap_denom" => R::UpdateSwapDenom { swap_denom: s(m, "swap_denom"), is_add: m["is_add"].as_bool().unwrap_or(false) },
        _ => return Err(format!("unknown reward message {}", k)),
    };
    debug_assert_eq!(kind_of_reward(&msg), k);
    Ok(to_json_binary(&msg))
}
pub fn kind_of_reward(m: &basset::reward::ExecuteMsg) -> &'static str {
    use basset::reward::ExecuteMsg as R;
    match m {
        R::ClaimRewards { .. } => "claim_rewards",
        R::UpdateConfig { .. } => "update_config",
        R::SetOwner { .. } => "set_owner",
        R::AcceptOwnership {} => "accept_ownership",
        R::SwapToRewardDenom {} => "swap_to_reward_denom",
        R::UpdateGlobalIndex {} => "update_global_index",
        R::IncreaseBalance { .. } => "increase_balance",
        R::DecreaseBalance { .. } => "decrease_balance",
        R::UpdateSwapDenom { .. } => "update_swap_denom",
    }
}
pub const REWARD_KINDS: [&str; 9] = [
    "claim_rewards", "update_config", "set_owner", "accept_ownership", "swap_to_reward_denom", "update_global_index",
    "increase_balance", "decrease_balance", "update_swap_denom",
];

fn build_dispatcher(k: &str, m: &Value) -> Result<Result<Binary, cosmwasm_std::StdError>, String> {
    use basset_sei_rewards_dispatcher::msg::ExecuteMsg as D;
    let msg = match k {
        "swap_to_reward_denom" => D::SwapToRewardDenom { bsei_total_bonded: u(m, "bsei_total_bonded"), stsei_total_bonded: u(m, "stsei_total_bonded") },
        "dispatch_rewards" => D::DispatchRewards {},
        "update_config" => D::UpdateConfig {
            hub_contract: opt_s(m, "hub_contract"),
            bsei_reward_contract: opt_s(m, "bsei_reward_contract"),
            stsei_reward_denom: opt_s(m, "stsei_reward_denom"),
            bsei_reward_denom: opt_s(m, "bsei_reward_denom"),
            krp_keeper_address: opt_s(m, "krp_keeper_address"),
            krp_keeper_rate: opt_dec(m, "krp_keeper_rate"),
        },
        "set_owner" => D::SetOwner { new_owner_addr: s(m, "new_owner_addr") },
        "accept_ownership" => D::AcceptOwnership {},
        "update_swap_contract" => D::UpdateSwapContract { swap_contract: s(m, "swap_contract") },
        "update_swap_denom" => D::UpdateSwapDenom { swap_denom: s(m, "swap_denom"), is_add: m["is_add"].as_bool().unwrap_or(false) },
        "update_oracle_contract" => D::UpdateOracleContract { oracle_contract: s(m, "oracle_contract") },
        _ => return Err(format!("unknown dispatcher message {}", k)),
    };
    debug_assert_eq!(kind_of_dispatcher(&msg), k);
    Ok(to_json_binary(&msg))
}
pub fn kind_of_dispatcher(m: &basset_sei_rewards_dispatcher::msg::ExecuteMsg) -> &'static str {
    use basset_sei_rewards_dispatcher::msg::ExecuteMsg as D;
    match m {
        D::SwapToRewardDenom { .. } => "swap_to_reward_denom",
        D::UpdateConfig { .. } => "update_config",
        D::SetOwner { .. } => "set_owner",
        D::AcceptOwnership {} => "accept_ownership",
        D::DispatchRewards {} => "dispatch_rewards",
        D::UpdateSwapContract { .. } => "update_swap_contract",
        D::UpdateSwapDenom { .. } => "update_swap_denom",
        D::UpdateOracleContract { .. } => "update_oracle_contract",
    }
}
pub const DISPATCHER_KINDS: [&str; 8] = [
    "swap_to_reward_denom", "update_config", "set_owner", "accept_ownership", "dispatch_rewards", "update_swap_contract",
    "update_swap_denom", "update_oracle_contract",
];

fn build_registry(k: &str, m: &Value) -> Result<Result<Binary, cosmwasm_std::StdError>, String> {
    use basset_sei_validators_registry::msg::ExecuteMsg as G;
    let msg = match k {
        "add_validator" => G::AddValidator { validator: basset_sei_validators_registry::registry::Validator { address: val_name(m["validator"].as_u64().unwrap_or(0)) } },
        "remove_validator" => G::RemoveValidator { address: val_name(m["address"].as_u64().unwrap_or(0)) },
        "update_config" => G::UpdateConfig { hub_contract: opt_s(m, "hub_contract") },
        "redelegations" => G::Redelegations { address: val_name(m["address"].as_u64().unwrap_or(0)) },
        "set_owner" => G::SetOwner { new_owner_addr: s(m, "new_owner_addr") },
        "accept_ownership" => G::AcceptOwnership {},
        _ => return Err(format!("unknown registry message {}", k)),
    };
    debug_assert_eq!(kind_of_registry(&msg), k);
    Ok(to_json_binary(&msg))
}
pub fn kind_of_registry(m: &basset_sei_validators_registry::msg::ExecuteMsg) -> &'static str {
    use basset_sei_validators_registry::msg::ExecuteMsg as G;
    match m {
        G::AddValidator { .. } => "add_validator",
        G::RemoveValidator { .. } => "remove_validator",
        G::UpdateConfig { .. } => "update_config",
        G::Redelegations { .. } => "redelegations",
        G::SetOwner { .. } => "set_owner",
        G::AcceptOwnership {} => "accept_ownership",
    }
}
pub const REGISTRY_KINDS: [&str; 6] = ["add_validator", "remove_validator", "update_config", "redelegations", "set_owner", "accept_ownership"];
