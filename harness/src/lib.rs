//! MiniChain: bank + staking + distribution + wasm router that executes the six REAL contracts of
//! /repo (instantiate / execute / query), plus swap and oracle stubs; projection of the real
//! storage and queries onto the abstract state of the TLA+ specification (spec/Base.tla `w`).
//! The harness contains no property logic: it drives, projects, compares and records.

use cosmwasm_std::testing::MockApi;
use cosmwasm_std::{
    from_json, to_json_binary, Addr, AllBalanceResponse, AllDelegationsResponse, Api, BalanceResponse,
    BankMsg, BankQuery, Binary, BlockInfo, CanonicalAddr, Coin, ContractInfo, ContractResult, CosmosMsg,
    Decimal, Delegation, DelegationResponse, Deps, DepsMut, DistributionMsg, Empty, Env, Fraction,
    FullDelegation, MessageInfo, Order, Querier, QuerierResult, QuerierWrapper, QueryRequest, Record,
    ReplyOn, Response, StakingMsg, StakingQuery, Storage, SystemError, SystemResult, Timestamp, Uint128,
    WasmMsg, WasmQuery,
};
use serde_json::{json, Map, Value};
use std::collections::BTreeMap;

pub mod msgs;
pub mod drive;
pub mod auth;

#[derive(Clone, Default, Debug, PartialEq)]
pub struct Store(pub BTreeMap<Vec<u8>, Vec<u8>>);
impl Storage for Store {
    fn get(&self, key: &[u8]) -> Option<Vec<u8>> {
        self.0.get(key).cloned()
    }
    fn set(&mut self, key: &[u8], value: &[u8]) {
        self.0.insert(key.to_vec(), value.to_vec());
    }
    fn remove(&mut self, key: &[u8]) {
        self.0.remove(key);
    }
    fn range<'a>(
        &'a self,
        start: Option<&[u8]>,
        end: Option<&[u8]>,
        order: Order,
    ) -> Box<dyn Iterator<Item = Record> + 'a> {
        let s = start.map(|x| x.to_vec());
        let e = end.map(|x| x.to_vec());
        let it = self.0.iter().filter(move |(k, _)| {
            s.as_ref().map_or(true, |s| *k >= s) && e.as_ref().map_or(true, |e| *k < e)
        });
        let v: Vec<Record> = it.map(|(k, v)| (k.clone(), v.clone())).collect();
        match order {
            Order::Ascending => Box::new(v.into_iter()),
            Order::Descending => Box::new(v.into_iter().rev()),
        }
    }
}

#[derive(Clone, Copy, Debug, PartialEq)]
pub enum Kind {
    Hub,
    Reward,
    Dispatcher,
    Registry,
    BSei,
    StSei,
    Swap,
    Oracle,
    AirdropReg,
    AirdropC,
    AirToken,
    AirPair,
    Sink,
}

#[derive(Clone, Debug)]
pub struct Unbonding {
    pub delegator: String,
    pub validator: String,
    pub amount: u128,
    pub completion: u64,
}

#[derive(Clone)]
pub struct Chain {
    pub time: u64,
    pub height: u64,
    pub bank: BTreeMap<String, BTreeMap<String, u128>>,
    pub kinds: BTreeMap<String, Kind>,
    pub stores: BTreeMap<String, Store>,
    pub delegations: BTreeMap<(String, String), u128>,
    pub unbondings: Vec<Unbonding>,
    pub rewards: BTreeMap<(String, String), BTreeMap<String, u128>>,
    pub withdraw_addr: BTreeMap<String, String>,
    pub pay_lag: bool,
    pub max_entries: usize,
    pub can_redel: BTreeMap<String, bool>,
    pub unbonding_time: u64,
    pub bond_denom: String,
    pub price: Decimal,
    pub swap_mode: String,
    pub oracle_mode: String,
    pub air_hub: u128,
    pub air_pair: u128,
    pub air_amt: u128,
    pub fx: Vec<Value>,
    pub log: Vec<String>,
    pub keep_log: bool,
}

pub struct Q<'a> {
    c: &'a Chain,
}
impl<'a> Querier for Q<'a> {
    fn raw_query(&self, bin: &[u8]) -> QuerierResult {
        let req: QueryRequest<Empty> = match from_json(bin) {
            Ok(r) => r,
            Err(e) => {
                return SystemResult::Err(SystemError::InvalidRequest {
                    error: e.to_string(),
                    request: bin.into(),
                })
            }
        };
        self.c.query(&req)
    }
}

pub fn qok<T: serde::Serialize>(t: &T) -> QuerierResult {
    SystemResult::Ok(ContractResult::Ok(to_json_binary(t).unwrap()))
}

/// validators 1..9 are "val1".."val9", 10.. are "valA", "valB", ...: byte order of the names = numeric order of the ids
/// (the registry and the staking queries iterate addresses in byte order, the specification in id order)
pub fn val_name(v: u64) -> String {
    if v < 10 { format!("val{}", v) } else { format!("val{}", (b'A' + (v - 10) as u8) as char) }
}
pub fn val_index(name: &str) -> u64 {
    match name.strip_prefix("val") {
        Some(s) if s.len() == 1 && s.as_bytes()[0].is_ascii_uppercase() => 10 + (s.as_bytes()[0] - b'A') as u64,
        Some(s) => s.parse().ok().unwrap_or(0),
        None => 0,
    }
}

/// swap stub (spec/Queries.tla SwapOut): usei -> x at price, kusd -> x at 1/price, other coins 1:1
pub fn swap_out(price: Decimal, denom: &str, amount: Uint128) -> Uint128 {
    if denom == "usei" {
        amount * price
    } else if denom == "kusd" {
        amount * price.inv().expect("price is not zero")
    } else {
        amount
    }
}

fn msg_kind(msg: &Binary) -> String {
    match serde_json::from_slice::<Value>(msg.as_slice()) {
        Ok(Value::Object(m)) => m.keys().next().cloned().unwrap_or_default(),
        _ => String::new(),
    }
}

impl Chain {
    pub fn new() -> Chain {
        Chain {
            time: 1000,
            height: 1,
            bank: Default::default(),
            kinds: Default::default(),
            stores: Default::default(),
            delegations: Default::default(),
            unbondings: vec![],
            rewards: Default::default(),
            withdraw_addr: Default::default(),
            pay_lag: false,
            max_entries: 0,
            can_redel: Default::default(),
            unbonding_time: 100,
            bond_denom: "usei".into(),
            price: Decimal::one(),
            swap_mode: "ok".into(),
            oracle_mode: "ok".into(),
            air_hub: 0,
            air_pair: 0,
            air_amt: 0,
            fx: vec![],
            log: vec![],
            keep_log: false,
        }
    }
    pub fn bal(&self, a: &str, d: &str) -> u128 {
        self.bank.get(a).and_then(|m| m.get(d)).copied().unwrap_or(0)
    }
    pub fn mint_coins(&mut self, a: &str, d: &str, amt: u128) {
        *self.bank.entry(a.into()).or_default().entry(d.into()).or_default() += amt;
    }
    pub fn send(&mut self, from: &str, to: &str, coins: &[Coin]) -> Result<(), String> {
        for c in coins {
            if c.amount.is_zero() {
                return Err("bank: zero amount".into());
            }
            let b = self.bal(from, &c.denom);
            if b < c.amount.u128() {
                return Err(format!("bank: insufficient {} {} < {}", c.denom, b, c.amount));
            }
            *self.bank.get_mut(from).unwrap().get_mut(&c.denom).unwrap() -= c.amount.u128();
            self.mint_coins(to, &c.denom, c.amount.u128());
        }
        Ok(())
    }
    pub fn env(&self, contract: &str) -> Env {
        Env {
            block: BlockInfo {
                height: self.height,
                time: Timestamp::from_seconds(self.time),
                chain_id: "mini".into(),
            },
            transaction: None,
            contract: ContractInfo { address: Addr::unchecked(contract) },
        }
    }
    pub fn query(&self, req: &QueryRequest<Empty>) -> QuerierResult {
        match req {
            QueryRequest::Bank(BankQuery::Balance { address, denom }) => qok(&BalanceResponse {
                amount: Coin::new(self.bal(address, denom), denom.clone()),
            }),
            QueryRequest::Bank(BankQuery::AllBalances { address }) => {
                let v: Vec<Coin> = self
                    .bank
                    .get(address)
                    .map(|m| m.iter().filter(|(_, a)| **a > 0).map(|(d, a)| Coin::new(*a, d.clone())).collect())
                    .unwrap_or_default();
                qok(&AllBalanceResponse { amount: v })
            }
            QueryRequest::Staking(StakingQuery::AllDelegations { delegator }) => {
                let v: Vec<Delegation> = self
                    .delegations
                    .iter()
                    .filter(|((d, _), a)| d == delegator && **a > 0)
                    .map(|((d, v), a)| Delegation {
                        delegator: Addr::unchecked(d.clone()),
                        validator: v.clone(),
                        amount: Coin::new(*a, self.bond_denom.clone()),
                    })
                    .collect();
                qok(&AllDelegationsResponse { delegations: v })
            }
            QueryRequest::Staking(StakingQuery::Delegation { delegator, validator }) => {
                let a = self.delegations.get(&(delegator.clone(), validator.clone())).copied().unwrap_or(0);
                let can = self.can_redel.get(validator).copied().unwrap_or(true);
                let d = if a > 0 {
                    Some(FullDelegation {
                        delegator: Addr::unchecked(delegator.clone()),
                        validator: validator.clone(),
                        amount: Coin::new(a, self.bond_denom.clone()),
                        can_redelegate: Coin::new(if can { a } else { 0 }, self.bond_denom.clone()),
                        accumulated_rewards: vec![],
                    })
                } else {
                    None
                };
                qok(&DelegationResponse { delegation: d })
            }
            QueryRequest::Wasm(WasmQuery::Smart { contract_addr, msg }) => {
                let kind = match self.kinds.get(contract_addr) {
                    Some(k) => *k,
                    None => {
                        return SystemResult::Err(SystemError::NoSuchContract { addr: contract_addr.clone() })
                    }
                };
                let api = MockApi::default();
                let q = Q { c: self };
                let empty = Store::default();
                let st = self.stores.get(contract_addr).unwrap_or(&empty);
                let deps = Deps { storage: st, api: &api, querier: QuerierWrapper::new(&q) };
                let env = self.env(contract_addr);
                let r: Result<Binary, String> = match kind {
                    Kind::Hub => from_json(msg).map_err(|e| e.to_string()).and_then(|m| {
                        basset_sei_hub::contract::query(deps, env, m).map_err(|e| e.to_string())
                    }),
                    Kind::Reward => from_json(msg).map_err(|e| e.to_string()).and_then(|m| {
                        basset_sei_reward::contract::query(deps, env, m).map_err(|e| e.to_string())
                    }),
                    Kind::Dispatcher => from_json(msg).map_err(|e| e.to_string()).and_then(|m| {
                        basset_sei_rewards_dispatcher::contract::query(deps, env, m).map_err(|e| e.to_string())
                    }),
                    Kind::Registry => from_json(msg).map_err(|e| e.to_string()).and_then(|m| {
                        basset_sei_validators_registry::contract::query(deps, env, m).map_err(|e| e.to_string())
                    }),
                    Kind::BSei => from_json(msg).map_err(|e| e.to_string()).and_then(|m| {
                        basset_sei_token_bsei::contract::query(deps, env, m).map_err(|e| e.to_string())
                    }),
                    Kind::StSei => from_json(msg).map_err(|e| e.to_string()).and_then(|m| {
                        basset_sei_token_stsei::contract::query(deps, env, m).map_err(|e| e.to_string())
                    }),
                    Kind::Oracle => match self.oracle_mode.as_str() {
                        "ok" => Ok(to_json_binary(&self.price).unwrap()),
                        "zero" => Ok(to_json_binary(&Decimal::zero()).unwrap()),
                        _ => Err("oracle down".into()),
                    },
                    Kind::AirToken => match serde_json::from_slice::<Value>(msg.as_slice()) {
                        Ok(v) if v.get("balance").is_some() => {
                            let a = v["balance"]["address"].as_str().unwrap_or("");
                            let b = if a == "hub" { self.air_hub } else if a == "airpair" { self.air_pair } else { 0 };
                            Ok(to_json_binary(&cw20::BalanceResponse { balance: Uint128::new(b) }).unwrap())
                        }
                        _ => Err("airtoken: unsupported query".into()),
                    },
                    Kind::AirdropReg | Kind::AirdropC | Kind::AirPair | Kind::Sink => Err("no query".into()),
                    Kind::Swap => {
                        if self.swap_mode != "ok" {
                            Err("swap down".into())
                        } else {
                            from_json::<basset::swap_ext::SwapQueryMsg>(msg).map_err(|e| e.to_string()).and_then(|m| match m {
                                basset::swap_ext::SwapQueryMsg::QuerySimulation { offer_asset, .. } => {
                                    let d = offer_asset.info.to_string();
                                    Ok(to_json_binary(&basset::swap_ext::SimulationResponse {
                                        return_amount: swap_out(self.price, &d, offer_asset.amount),
                                        spread_amount: Uint128::zero(),
                                        commission_amount: Uint128::zero(),
                                    })
                                    .unwrap())
                                }
                                _ => Err("swap query unsupported".into()),
                            })
                        }
                    }
                };
                match r {
                    Ok(b) => SystemResult::Ok(ContractResult::Ok(b)),
                    Err(e) => SystemResult::Ok(ContractResult::Err(e)),
                }
            }
            _ => SystemResult::Err(SystemError::UnsupportedRequest { kind: format!("{:?}", req) }),
        }
    }

    pub fn instantiate(&mut self, kind: Kind, addr: &str, sender: &str, msg: Binary) -> Result<(), String> {
        let mut st = Store::default();
        let api = MockApi::default();
        let env = self.env(addr);
        let info = MessageInfo { sender: Addr::unchecked(sender), funds: vec![] };
        let r: Result<(), String> = std::panic::catch_unwind(std::panic::AssertUnwindSafe(|| {
            let q = Q { c: self };
            let deps = DepsMut { storage: &mut st, api: &api, querier: QuerierWrapper::new(&q) };
            let pe = |e: cosmwasm_std::StdError| e.to_string();
            match kind {
                Kind::Hub => basset_sei_hub::contract::instantiate(deps, env, info, from_json(&msg).map_err(pe)?).map(|_| ()).map_err(|e| e.to_string()),
                Kind::Reward => basset_sei_reward::contract::instantiate(deps, env, info, from_json(&msg).map_err(pe)?).map(|_| ()).map_err(|e| e.to_string()),
                Kind::Dispatcher => basset_sei_rewards_dispatcher::contract::instantiate(deps, env, info, from_json(&msg).map_err(pe)?).map(|_| ()).map_err(|e| e.to_string()),
                Kind::Registry => basset_sei_validators_registry::contract::instantiate(deps, env, info, from_json(&msg).map_err(pe)?).map(|_| ()).map_err(|e| e.to_string()),
                Kind::BSei => basset_sei_token_bsei::contract::instantiate(deps, env, info, from_json(&msg).map_err(pe)?).map(|_| ()).map_err(|e| e.to_string()),
                Kind::StSei => basset_sei_token_stsei::contract::instantiate(deps, env, info, from_json(&msg).map_err(pe)?).map(|_| ()).map_err(|e| e.to_string()),
                _ => Ok(()),
            }
        }))
        .unwrap_or_else(|p| Err(format!("PANIC: {}", panic_text(p))));
        r?;
        self.kinds.insert(addr.into(), kind);
        self.stores.insert(addr.into(), st);
        Ok(())
    }

    /// top-level transaction: atomic; effects of the last successful transaction are in `self.fx`
    pub fn tx(&mut self, sender: &str, contract: &str, msg: Binary, funds: Vec<Coin>) -> Result<(), String> {
        let snap = self.clone();
        self.fx.clear();
        let res = match std::panic::catch_unwind(std::panic::AssertUnwindSafe(|| self.exec_wasm(sender, contract, msg, funds, 0))) {
            Ok(r) => r,
            Err(p) => Err(format!("PANIC: {}", panic_text(p))),
        };
        match res {
            Ok(()) => Ok(()),
            Err(e) => {
                let log = std::mem::take(&mut self.log);
                *self = snap;
                self.log = log;
                self.fx.clear();
                Err(e)
            }
        }
    }

    fn exec_wasm(&mut self, sender: &str, contract: &str, msg: Binary, funds: Vec<Coin>, depth: usize) -> Result<(), String> {
        if depth > 12 {
            return Err("router: call depth exceeded".into());
        }
        let kind = *self.kinds.get(contract).ok_or(format!("no such contract {}", contract))?;
        if !funds.is_empty() {
            self.send(sender, contract, &funds)?;
        }
        if self.keep_log {
            self.log.push(format!("{}exec {}->{} {} funds={:?}", "  ".repeat(depth), sender, contract, String::from_utf8_lossy(msg.as_slice()), funds));
        }
        let api = MockApi::default();
        let env = self.env(contract);
        let info = MessageInfo { sender: Addr::unchecked(sender), funds: funds.clone() };
        let mut st = self.stores.get(contract).cloned().unwrap_or_default();
        let resp: Response = {
            let q = Q { c: self };
            let deps = DepsMut { storage: &mut st, api: &api, querier: QuerierWrapper::new(&q) };
            let pe = |e: cosmwasm_std::StdError| e.to_string();
            match kind {
                Kind::Hub => basset_sei_hub::contract::execute(deps, env, info, from_json(&msg).map_err(pe)?).map_err(|e| e.to_string())?,
                Kind::Reward => basset_sei_reward::contract::execute(deps, env, info, from_json(&msg).map_err(pe)?).map_err(|e| e.to_string())?,
                Kind::Dispatcher => basset_sei_rewards_dispatcher::contract::execute(deps, env, info, from_json(&msg).map_err(pe)?).map_err(|e| e.to_string())?,
                Kind::Registry => basset_sei_validators_registry::contract::execute(deps, env, info, from_json(&msg).map_err(pe)?).map_err(|e| e.to_string())?,
                Kind::BSei => basset_sei_token_bsei::contract::execute(deps, env, info, from_json(&msg).map_err(pe)?).map_err(|e| e.to_string())?,
                Kind::StSei => basset_sei_token_stsei::contract::execute(deps, env, info, from_json(&msg).map_err(pe)?).map_err(|e| e.to_string())?,
                Kind::Swap => {
                    if self.swap_mode != "ok" {
                        return Err("swap down".into());
                    }
                    let m: basset::swap_ext::SwapExecteMsg = from_json(&msg).map_err(|e| e.to_string())?;
                    let basset::swap_ext::SwapExecteMsg::SwapDenom { from_coin, target_denom, to_address } = m;
                    if !["usei", "kusd", "ufor"].contains(&target_denom.as_str()) {
                        return Err("swap: unknown denom".into());
                    }
                    let out = swap_out(self.price, &from_coin.denom, from_coin.amount);
                    let to = to_address.unwrap_or(sender.to_string());
                    self.mint_coins(contract, &target_denom, out.u128());
                    if !out.is_zero() {
                        return self.dispatch(contract, CosmosMsg::Bank(BankMsg::Send { to_address: to, amount: vec![Coin::new(out.u128(), target_denom)] }), depth + 1);
                    }
                    return Ok(());
                }
                Kind::Oracle => return Err("no such contract (oracle has no execute)".into()),
                Kind::Sink => return Ok(()),
                Kind::AirdropReg | Kind::AirdropC | Kind::AirToken | Kind::AirPair => {
                    let v: Value = serde_json::from_slice(msg.as_slice()).map_err(|e| e.to_string())?;
                    let k = msg_kind(&msg);
                    match (kind, k.as_str()) {
                        (Kind::AirdropReg, "fabricate_claim") => {
                            let m = basset::hub::ExecuteMsg::ClaimAirdrop {
                                airdrop_token_contract: "airtoken".into(), airdrop_contract: "airdropc".into(), airdrop_swap_contract: "airpair".into(),
                                claim_msg: Binary::from(b"{\"claim\":{}}".to_vec()), swap_msg: Binary::from(b"{\"swap\":{}}".to_vec()) };
                            return self.dispatch(contract, CosmosMsg::Wasm(WasmMsg::Execute { contract_addr: "hub".into(), msg: to_json_binary(&m).unwrap(), funds: vec![] }), depth + 1);
                        }
                        (Kind::AirdropC, "claim") => {
                            if sender == "hub" {
                                self.air_hub += self.air_amt;
                            }
                            return Ok(());
                        }
                        (Kind::AirToken, "send") => {
                            let amount: u128 = v["send"]["amount"].as_str().and_then(|x| x.parse().ok()).unwrap_or(0);
                            let to = v["send"]["contract"].as_str().unwrap_or("").to_string();
                            if sender != "hub" || amount == 0 || self.air_hub < amount {
                                return Err("airtoken: insufficient balance".into());
                            }
                            if to != "airpair" {
                                return Err("airtoken: recipient is not a contract".into());
                            }
                            self.air_hub -= amount;
                            self.air_pair += amount;
                            let rm = cw20::Cw20ReceiveMsg { sender: sender.to_string(), amount: Uint128::new(amount), msg: Binary::from(b"{\"swap\":{}}".to_vec()) };
                            let wm = json!({"receive": rm});
                            return self.dispatch(contract, CosmosMsg::Wasm(WasmMsg::Execute { contract_addr: to, msg: Binary::from(serde_json::to_vec(&wm).unwrap()), funds: vec![] }), depth + 1);
                        }
                        (Kind::AirPair, "receive") => {
                            if sender != "airtoken" {
                                return Err("airpair: unauthorized".into());
                            }
                            let amount: u128 = v["receive"]["amount"].as_str().and_then(|x| x.parse().ok()).unwrap_or(0);
                            self.mint_coins("reward", "kusd", amount);
                            return Ok(());
                        }
                        _ => return Err("airdrop stub: unknown message".into()),
                    }
                }
            }
        };
        self.stores.insert(contract.into(), st);
        for sm in resp.messages {
            if sm.reply_on != ReplyOn::Never {
                return Err("router: reply_on is not supported".into());
            }
            self.dispatch(contract, sm.msg, depth + 1)?;
        }
        Ok(())
    }

    fn dispatch(&mut self, sender: &str, msg: CosmosMsg, depth: usize) -> Result<(), String> {
        match msg {
            CosmosMsg::Bank(BankMsg::Send { to_address, amount }) => {
                if self.keep_log {
                    self.log.push(format!("{}bank {}->{} {:?}", "  ".repeat(depth), sender, to_address, amount));
                }
                if amount.is_empty() {
                    self.fx.push(json!({"t": "bank", "from": sender, "to": to_address, "d": "", "a": 0}));
                    return Err("bank: empty".into());
                }
                for c in &amount {
                    self.fx.push(json!({"t": "bank", "from": sender, "to": to_address, "d": c.denom, "a": c.amount.u128() as u64}));
                }
                self.send(sender, &to_address, &amount)
            }
            CosmosMsg::Staking(StakingMsg::Delegate { validator, amount }) => {
                self.fx.push(json!({"t": "delegate", "from": sender, "v": val_index(&validator), "a": amount.amount.u128() as u64}));
                if amount.amount.is_zero() || amount.denom != self.bond_denom {
                    return Err("staking: invalid delegate".into());
                }
                self.auto_withdraw(sender, &validator);
                self.send(sender, "bonded_pool", &[amount.clone()])?;
                *self.delegations.entry((sender.into(), validator)).or_default() += amount.amount.u128();
                Ok(())
            }
            CosmosMsg::Staking(StakingMsg::Undelegate { validator, amount }) => {
                self.fx.push(json!({"t": "undelegate", "from": sender, "v": val_index(&validator), "a": amount.amount.u128() as u64}));
                self.auto_withdraw(sender, &validator);
                let d = self.delegations.entry((sender.into(), validator.clone())).or_default();
                if *d < amount.amount.u128() || amount.amount.is_zero() {
                    return Err("staking: invalid undelegate".into());
                }
                if self.max_entries > 0 && self.unbondings.iter().filter(|u| u.delegator == sender && u.validator == validator).count() >= self.max_entries {
                    return Err("staking: too many unbonding entries".into());
                }
                let d = self.delegations.entry((sender.into(), validator.clone())).or_default();
                *d -= amount.amount.u128();
                self.unbondings.push(Unbonding { delegator: sender.into(), validator, amount: amount.amount.u128(), completion: self.time + self.unbonding_time });
                Ok(())
            }
            CosmosMsg::Staking(StakingMsg::Redelegate { src_validator, dst_validator, amount }) => {
                self.fx.push(json!({"t": "redelegate", "from": sender, "src": val_index(&src_validator), "dst": val_index(&dst_validator), "a": amount.amount.u128() as u64}));
                self.auto_withdraw(sender, &src_validator);
                self.auto_withdraw(sender, &dst_validator);
                let d = self.delegations.entry((sender.into(), src_validator)).or_default();
                if *d < amount.amount.u128() || amount.amount.is_zero() {
                    return Err("staking: invalid redelegate".into());
                }
                *d -= amount.amount.u128();
                *self.delegations.entry((sender.into(), dst_validator)).or_default() += amount.amount.u128();
                Ok(())
            }
            CosmosMsg::Distribution(DistributionMsg::SetWithdrawAddress { address }) => {
                self.fx.push(json!({"t": "setwd", "from": sender, "addr": address}));
                self.withdraw_addr.insert(sender.into(), address);
                Ok(())
            }
            CosmosMsg::Distribution(DistributionMsg::WithdrawDelegatorReward { validator }) => {
                self.fx.push(json!({"t": "wdreward", "from": sender, "v": val_index(&validator)}));
                if self.delegations.get(&(sender.to_string(), validator.clone())).copied().unwrap_or(0) == 0 {
                    return Err("distribution: no delegation".into());
                }
                self.auto_withdraw(sender, &validator);
                Ok(())
            }
            CosmosMsg::Wasm(WasmMsg::Execute { contract_addr, msg, funds }) => {
                self.fx.push(json!({"t": "wasm", "from": sender, "to": contract_addr, "k": msg_kind(&msg)}));
                self.exec_wasm(sender, &contract_addr, msg, funds, depth)
            }
            m => Err(format!("unsupported msg {:?}", m)),
        }
    }
    fn auto_withdraw(&mut self, delegator: &str, validator: &str) {
        if let Some(r) = self.rewards.remove(&(delegator.to_string(), validator.to_string())) {
            let to = self.withdraw_addr.get(delegator).cloned().unwrap_or(delegator.to_string());
            for (d, a) in r {
                self.mint_coins(&to, &d, a);
            }
        }
    }
    pub fn accrue(&mut self, delegator: &str, validator: &str, denom: &str, amt: u128) {
        *self.rewards.entry((delegator.into(), validator.into())).or_default().entry(denom.into()).or_default() += amt;
    }
    pub fn advance(&mut self, dt: u64) {
        // pay_lag (exploration "E2-paylag" only): the end-blocker pays matured entries, so a block's transactions
        // see what had matured by the previous block's time
        let lim = if self.pay_lag { self.time } else { self.time + dt };
        self.time += dt;
        self.height += 1;
        let (done, rest): (Vec<_>, Vec<_>) = self.unbondings.drain(..).partition(|u| u.completion <= lim);
        self.unbondings = rest;
        for u in done {
            self.mint_coins(&u.delegator, &self.bond_denom.clone(), u.amount);
        }
    }
    pub fn deleg(&self, delegator: &str, validator: &str) -> u128 {
        self.delegations.get(&(delegator.to_string(), validator.to_string())).copied().unwrap_or(0)
    }
    pub fn q<T: serde::de::DeserializeOwned, M: serde::Serialize>(&self, c: &str, m: &M) -> T {
        self.try_q(c, m).unwrap_or_else(|e| panic!("query to {} failed: {}", c, e))
    }
    pub fn try_q<T: serde::de::DeserializeOwned, M: serde::Serialize>(&self, c: &str, m: &M) -> Result<T, String> {
        let r = self.query(&QueryRequest::Wasm(WasmQuery::Smart { contract_addr: c.into(), msg: to_json_binary(m).unwrap() }));
        match r {
            SystemResult::Ok(ContractResult::Ok(b)) => from_json(&b).map_err(|e| e.to_string()),
            SystemResult::Ok(ContractResult::Err(e)) => Err(e),
            SystemResult::Err(e) => Err(e.to_string()),
        }
    }
}

fn panic_text(p: Box<dyn std::any::Any + Send>) -> String {
    p.downcast_ref::<String>().cloned().or(p.downcast_ref::<&str>().map(|s| s.to_string())).unwrap_or_default()
}

// ------------------------------------------------------------------------------------------------
// configuration shared with the TLA+ model (constants of Krp.tla)

#[derive(Clone, Debug)]
pub struct Cfg {
    pub users: Vec<String>,
    pub nv: u64,
    pub max_batch: u64,
    pub epoch: u64,
    pub unbonding: u64,
    pub fee: Decimal,
    pub thr: Decimal,
    pub keeper_rate: Decimal,
    pub price: Decimal,
    pub t0: u64,
    pub user_funds: u128,
    pub init_vals: Vec<u64>,
    pub prefix: Vec<Value>,
    pub pay_lag: bool,
    pub max_entries: usize,
    pub stub_compare: bool,
}

pub fn dec_of(v: &Value) -> Decimal {
    let a = v[0].as_u64().unwrap() as u128;
    let b = v[1].as_u64().unwrap() as u128;
    let c = v[2].as_u64().unwrap() as u128;
    Decimal::from_atomics(Uint128::new(a * 1_000_000_000_000_000_000 + b * 1_000_000_000 + c), 18).unwrap()
}
pub fn limbs(d: Decimal) -> Value {
    let a = d.atomics().u128();
    json!([(a / 1_000_000_000_000_000_000) as u64, ((a % 1_000_000_000_000_000_000) / 1_000_000_000) as u64, (a % 1_000_000_000) as u64])
}
fn n(x: u128) -> Value {
    json!(x as u64)
}

impl Cfg {
    pub fn from_json(v: &Value) -> Cfg {
        Cfg {
            users: v["Users"].as_array().unwrap().iter().map(|x| x.as_str().unwrap().to_string()).collect(),
            nv: v["NV"].as_u64().unwrap(),
            max_batch: v["MaxBatch"].as_u64().unwrap(),
            epoch: v["Epoch"].as_u64().unwrap(),
            unbonding: v["Unbonding"].as_u64().unwrap(),
            fee: dec_of(&v["Fee"]),
            thr: dec_of(&v["Thr"]),
            keeper_rate: dec_of(&v["KeeperRate"]),
            price: dec_of(&v["Price"]),
            t0: v["T0"].as_u64().unwrap(),
            user_funds: v["UserFunds"].as_u64().unwrap() as u128,
            init_vals: v["InitVals"].as_array().unwrap().iter().map(|x| x.as_u64().unwrap()).collect(),
            prefix: v["Prefix"].as_array().cloned().unwrap_or_default(),
            pay_lag: v["PayLag"].as_bool().unwrap_or(false),
            max_entries: if v["MaxEntries"].as_bool().unwrap_or(false) { 7 } else { 0 },
            stub_compare: v["StubCompare"].as_bool().unwrap_or(false),
        }
    }
    pub fn accts(&self) -> Vec<String> {
        let mut a = self.users.clone();
        a.push("hub".into());
        a.sort();
        a
    }
    pub fn bank_accts(&self) -> Vec<String> {
        let mut a = self.users.clone();
        for x in ["hub", "reward", "dispatcher", "keeper", "swap"] {
            a.push(x.into());
        }
        a.sort();
        a
    }
}

pub const DENOMS: [&str; 3] = ["kusd", "ufor", "usei"];

/// the wired system of Krp.tla `InitWorld`
pub fn setup(cfg: &Cfg) -> Chain {
    use basset::hub::ExecuteMsg as H;
    let mut c = Chain::new();
    c.time = cfg.t0;
    c.pay_lag = cfg.pay_lag;
    c.max_entries = cfg.max_entries;
    c.unbonding_time = cfg.unbonding;
    c.price = cfg.price;
    c.instantiate(Kind::Hub, "hub", "owner", to_json_binary(&basset::hub::InstantiateMsg {
        epoch_period: cfg.epoch, underlying_coin_denom: "usei".into(), unbonding_period: cfg.unbonding,
        peg_recovery_fee: cfg.fee, er_threshold: cfg.thr, reward_denom: "kusd".into(),
        update_reward_index_addr: "updater".into() }).unwrap()).unwrap();
    c.instantiate(Kind::Swap, "swap", "owner", Binary::default()).unwrap();
    c.instantiate(Kind::Oracle, "oracle", "owner", Binary::default()).unwrap();
    c.instantiate(Kind::AirdropReg, "airdrop", "owner", Binary::default()).unwrap();
    c.instantiate(Kind::AirdropC, "airdropc", "owner", Binary::default()).unwrap();
    c.instantiate(Kind::AirToken, "airtoken", "owner", Binary::default()).unwrap();
    c.instantiate(Kind::AirPair, "airpair", "owner", Binary::default()).unwrap();
    c.instantiate(Kind::Sink, "sink", "owner", Binary::default()).unwrap();
    c.instantiate(Kind::Reward, "reward", "owner", to_json_binary(&basset::reward::InstantiateMsg {
        hub_contract: "hub".into(), reward_denom: "kusd".into(), swap_contract: "swap".into(), swap_denoms: vec![] }).unwrap()).unwrap();
    c.instantiate(Kind::Dispatcher, "dispatcher", "owner", to_json_binary(&basset_sei_rewards_dispatcher::msg::InstantiateMsg {
        hub_contract: "hub".into(), bsei_reward_contract: "reward".into(), stsei_reward_denom: "usei".into(), bsei_reward_denom: "kusd".into(),
        krp_keeper_address: "keeper".into(), krp_keeper_rate: cfg.keeper_rate, swap_contract: "swap".into(),
        swap_denoms: vec!["usei".into(), "kusd".into(), "ufor".into()], oracle_contract: "oracle".into() }).unwrap()).unwrap();
    c.instantiate(Kind::Registry, "registry", "owner", to_json_binary(&basset_sei_validators_registry::msg::InstantiateMsg {
        registry: cfg.init_vals.iter().map(|v| basset_sei_validators_registry::registry::Validator { address: val_name(*v) }).collect(),
        hub_contract: "hub".into() }).unwrap()).unwrap();
    c.instantiate(Kind::BSei, "bsei", "owner", to_json_binary(&basset_sei_token_bsei::msg::TokenInitMsg {
        name: "bsei".into(), symbol: "BSEI".into(), decimals: 6, initial_balances: vec![], hub_contract: "hub".into() }).unwrap()).unwrap();
    c.instantiate(Kind::StSei, "stsei", "owner", to_json_binary(&basset_sei_token_stsei::msg::TokenInitMsg {
        name: "stsei".into(), symbol: "STSEI".into(), decimals: 6, initial_balances: vec![], hub_contract: "hub".into(),
        marketing: Some(cw20_base::msg::InstantiateMarketingInfo { project: None, description: None, marketing: Some("owner".into()), logo: None }) }).unwrap()).unwrap();
    c.tx("owner", "hub", to_json_binary(&H::UpdateConfig {
        rewards_dispatcher_contract: Some("dispatcher".into()), validators_registry_contract: Some("registry".into()),
        bsei_token_contract: Some("bsei".into()), stsei_token_contract: Some("stsei".into()), airdrop_registry_contract: None,
        rewards_contract: Some("reward".into()), update_reward_index_addr: None }).unwrap(), vec![]).unwrap();
    c.fx.clear();
    for u in &cfg.users {
        c.mint_coins(u, "usei", cfg.user_funds);
    }
    for tx in &cfg.prefix {
        apply(&mut c, tx);
    }
    c.fx.clear();
    c
}

// ------------------------------------------------------------------------------------------------
// projection of the real state onto the world record `w` of spec/Base.tla

fn human(api: &MockApi, a: &CanonicalAddr) -> String {
    api.addr_humanize(a).map(|x| x.to_string()).unwrap_or_default()
}
fn human_opt(api: &MockApi, a: &Option<CanonicalAddr>) -> String {
    a.as_ref().map(|x| human(api, x)).unwrap_or_default()
}
fn exp_json(e: &cw_utils::Expiration) -> Value {
    match e {
        cw_utils::Expiration::AtHeight(h) => json!({"k": "height", "v": h}),
        cw_utils::Expiration::AtTime(t) => json!({"k": "time", "v": t.seconds()}),
        cw_utils::Expiration::Never {} => json!({"k": "never", "v": 0}),
    }
}

fn project_token(c: &Chain, cfg: &Cfg, addr: &str) -> Value {
    use cw20::Cw20QueryMsg as TQ;
    let api = MockApi::default();
    let accts = cfg.accts();
    let info: cw20::TokenInfoResponse = c.q(addr, &TQ::TokenInfo {});
    let minter: Option<cw20::MinterResponse> = c.q(addr, &TQ::Minter {});
    let mut bal = Map::new();
    for a in &accts {
        let b: cw20::BalanceResponse = c.q(addr, &TQ::Balance { address: a.clone() });
        bal.insert(a.clone(), n(b.balance.u128()));
    }
    // everything held by accounts outside the modelled universe
    let mut other: u128 = 0;
    let mut start: Option<String> = None;
    loop {
        let r: cw20::AllAccountsResponse = c.q(addr, &TQ::AllAccounts { start_after: start.clone(), limit: Some(30) });
        if r.accounts.is_empty() {
            break;
        }
        for a in &r.accounts {
            if !accts.contains(a) {
                let b: cw20::BalanceResponse = c.q(addr, &TQ::Balance { address: a.clone() });
                other += b.balance.u128();
            }
        }
        start = r.accounts.last().cloned();
    }
    let mut allow = Map::new();
    for o in &accts {
        let mut row = Map::new();
        for s in &accts {
            row.insert(s.clone(), json!({"has": false, "amt": 0, "exp": {"k": "never", "v": 0}}));
        }
        let mut start: Option<String> = None;
        loop {
            let r: cw20::AllAllowancesResponse = c.q(addr, &TQ::AllAllowances { owner: o.clone(), start_after: start.clone(), limit: Some(30) });
            if r.allowances.is_empty() {
                break;
            }
            for al in &r.allowances {
                if accts.contains(&al.spender) {
                    row.insert(al.spender.clone(), json!({"has": true, "amt": n(al.allowance.u128()), "exp": exp_json(&al.expires)}));
                }
            }
            start = r.allowances.last().map(|a| a.spender.clone());
        }
        allow.insert(o.clone(), Value::Object(row));
    }
    let st = c.stores.get(addr).unwrap();
    let (hub, marketing) = if addr == "bsei" {
        (basset_sei_token_bsei::state::read_hub_contract(st).map(|a| human(&api, &a)).unwrap_or_default(), String::new())
    } else {
        let m: cw20::MarketingInfoResponse = c.q(addr, &TQ::MarketingInfo {});
        (
            basset_sei_token_stsei::state::HUB_CONTRACT.load(st).map(|a| human(&api, &a)).unwrap_or_default(),
            m.marketing.map(|a| a.to_string()).unwrap_or_default(),
        )
    };
    json!({
        "hub": hub, "minter": minter.map(|m| m.minter).unwrap_or_default(), "supply": n(info.total_supply.u128()),
        "bal": bal, "other": n(other), "allow": allow, "marketing": marketing,
    })
}

pub fn project(c: &Chain, cfg: &Cfg) -> Value {
    use basset::hub::QueryMsg as HQ;
    let api = MockApi::default();
    let accts = cfg.accts();
    // chain
    let mut bank = Map::new();
    for a in cfg.bank_accts() {
        let mut row = Map::new();
        for d in DENOMS {
            row.insert(d.into(), n(c.bal(&a, d)));
        }
        bank.insert(a, Value::Object(row));
    }
    let deleg: Vec<Value> = (1..=cfg.nv).map(|v| n(c.deleg("hub", &val_name(v)))).collect();
    let pend: Vec<Value> = (1..=cfg.nv)
        .map(|v| {
            let r = c.rewards.get(&("hub".to_string(), val_name(v)));
            let mut row = Map::new();
            for d in DENOMS {
                row.insert(d.into(), n(r.and_then(|m| m.get(d)).copied().unwrap_or(0)));
            }
            Value::Object(row)
        })
        .collect();
    let can: Vec<Value> = (1..=cfg.nv).map(|v| json!(c.can_redel.get(&val_name(v)).copied().unwrap_or(true))).collect();
    // hub
    let hst = c.stores.get("hub").unwrap();
    let hcfg = basset_sei_hub::state::CONFIG.load(hst).unwrap();
    let nominee = basset_sei_hub::state::read_new_owner(hst).map(|x| human(&api, &x.new_owner_addr)).unwrap_or_default();
    let par = basset_sei_hub::state::PARAMETERS.load(hst).unwrap();
    let s = basset_sei_hub::state::STATE.load(hst).unwrap();
    let b = basset_sei_hub::state::CURRENT_BATCH.load(hst).unwrap();
    let mut hist: Vec<Value> = vec![];
    let mut start: Option<u64> = None;
    loop {
        let page: basset::hub::AllHistoryResponse = c.q("hub", &HQ::AllHistory { start_from: start, limit: Some(100) });
        if page.history.is_empty() {
            break;
        }
        for h in &page.history {
            hist.push(json!({"id": h.batch_id, "time": h.time, "bAmt": n(h.bsei_amount.u128()), "bRate": limbs(h.bsei_applied_exchange_rate),
                "bW": limbs(h.bsei_withdraw_rate), "stAmt": n(h.stsei_amount.u128()), "stRate": limbs(h.stsei_applied_exchange_rate),
                "stW": limbs(h.stsei_withdraw_rate), "released": h.released}));
        }
        start = page.history.last().map(|h| h.batch_id);
        if page.history.len() < 100 {
            break;
        }
    }
    let mut wait = Map::new();
    for a in &accts {
        let w: basset::hub::UnbondRequestsResponse = c.q("hub", &HQ::UnbondRequests { address: a.clone() });
        let mut arr = vec![json!({"b": 0, "st": 0}); cfg.max_batch as usize];
        for (id, bamt, stamt) in w.requests {
            if id >= 1 && id <= cfg.max_batch {
                arr[(id - 1) as usize] = json!({"b": n(bamt.u128()), "st": n(stamt.u128())});
            }
        }
        wait.insert(a.clone(), Value::Array(arr));
    }
    let legacy = read_legacy(hst);
    // reward
    let rst = c.stores.get("reward").unwrap();
    let rcfg = basset_sei_reward::state::read_config(rst).unwrap();
    let rstate = basset_sei_reward::state::read_state(rst).unwrap();
    let rnom = basset_sei_reward::state::read_new_owner(rst).map(|x| human(&api, &x.new_owner_addr)).unwrap_or_default();
    let mut holders = Map::new();
    let mut known_total: u128 = 0;
    for a in &accts {
        let h: basset::reward::HolderResponse = c.q("reward", &basset::reward::QueryMsg::Holder { address: a.clone() });
        known_total += h.balance.u128();
        holders.insert(a.clone(), json!({"bal": n(h.balance.u128()), "idx": limbs(h.index), "pend": limbs(h.pending_rewards)}));
    }
    let mut other_holders: u128 = 0;
    for item in basset_sei_reward::state::HOLDERS.range(rst, None, None, Order::Ascending) {
        if let Ok((k, h)) = item {
            let a = human(&api, &CanonicalAddr::from(k));
            if !accts.contains(&a) {
                other_holders += h.balance.u128();
            }
        }
    }
    let _ = known_total;
    // dispatcher
    let dst = c.stores.get("dispatcher").unwrap();
    let dcfg = basset_sei_rewards_dispatcher::state::read_config(dst).unwrap();
    let dnom = basset_sei_rewards_dispatcher::state::read_new_owner(dst).map(|x| human(&api, &x.new_owner_addr)).unwrap_or_default();
    // registry
    let gst = c.stores.get("registry").unwrap();
    let gcfg = basset_sei_validators_registry::registry::CONFIG.load(gst).unwrap();
    let gnom = basset_sei_validators_registry::registry::read_new_owner(gst).map(|x| human(&api, &x.new_owner_addr)).unwrap_or_default();
    let mut vals: Vec<u64> = basset_sei_validators_registry::registry::REGISTRY
        .range(gst, None, None, Order::Ascending)
        .filter_map(|r| r.ok())
        .map(|(_, v)| val_index(&v.address))
        .collect();
    vals.sort();

    json!({
        "now": c.time, "height": c.height, "chainUnbonding": c.unbonding_time,
        "bank": bank, "deleg": deleg,
        "unbq": c.unbondings.iter().map(|u| json!({"v": val_index(&u.validator), "amt": n(u.amount), "at": u.completion})).collect::<Vec<_>>(),
        "pend": pend,
        "wdAddr": c.withdraw_addr.get("hub").cloned().unwrap_or("hub".to_string()),
        "canRedel": can,
        "ext": {"swap": c.swap_mode, "oracle": c.oracle_mode, "price": limbs(c.price)},
        "hubCfg": {"owner": human(&api, &hcfg.creator), "nominee": nominee, "updater": human(&api, &hcfg.update_reward_index_addr),
                   "dispatcher": human_opt(&api, &hcfg.reward_dispatcher_contract), "registry": human_opt(&api, &hcfg.validators_registry_contract),
                   "bsei": human_opt(&api, &hcfg.bsei_token_contract), "stsei": human_opt(&api, &hcfg.stsei_token_contract),
                   "airdrop": human_opt(&api, &hcfg.airdrop_registry_contract), "rewards": human_opt(&api, &hcfg.rewards_contract)},
        "hubPar": {"epoch": par.epoch_period, "unbonding": par.unbonding_period, "fee": limbs(par.peg_recovery_fee), "thr": limbs(par.er_threshold),
                   "denom": par.underlying_coin_denom, "rdenom": par.reward_denom, "paused": par.paused.unwrap_or(false)},
        "hub": {"bondB": n(s.total_bond_bsei_amount.u128()), "bondSt": n(s.total_bond_stsei_amount.u128()),
                "rateB": limbs(s.bsei_exchange_rate), "rateSt": limbs(s.stsei_exchange_rate),
                "prevBal": n(s.prev_hub_balance.u128()), "lastUnb": s.last_unbonded_time, "lastProc": s.last_processed_batch,
                "lastIdx": s.last_index_modification},
        "batch": {"id": b.id, "reqB": n(b.requested_bsei_with_fee.u128()), "reqSt": n(b.requested_stsei.u128())},
        "hist": hist, "wait": wait, "legacy": legacy,
        "bsei": project_token(c, cfg, "bsei"),
        "stsei": project_token(c, cfg, "stsei"),
        "rew": {"owner": human(&api, &rcfg.owner), "nominee": rnom, "hub": human(&api, &rcfg.hub_contract), "rdenom": rcfg.reward_denom,
                "swap": human(&api, &rcfg.swap_contract), "swapDenoms": rcfg.swap_denoms,
                "gidx": limbs(rstate.global_index), "total": n(rstate.total_balance.u128()), "prevBal": n(rstate.prev_reward_balance.u128()),
                "holders": holders, "other": n(other_holders)},
        "disp": {"owner": human(&api, &dcfg.owner), "nominee": dnom, "hub": human(&api, &dcfg.hub_contract), "reward": human(&api, &dcfg.bsei_reward_contract),
                 "stDenom": dcfg.stsei_reward_denom, "bDenom": dcfg.bsei_reward_denom, "keeper": human(&api, &dcfg.krp_keeper_address),
                 "rate": limbs(dcfg.krp_keeper_rate), "swap": human(&api, &dcfg.swap_contract), "swapDenoms": dcfg.swap_denoms,
                 "oracle": human(&api, &dcfg.oracle_contract)},
        "reg": {"owner": human(&api, &gcfg.owner), "nominee": gnom, "hub": human(&api, &gcfg.hub_contract), "vals": vals},
        "air": {"hub": n(c.air_hub), "pair": n(c.air_pair), "amt": n(c.air_amt)},
    })
}

/// what the public hub queries answer: the State query (reported, i.e. recomputed, state) in the
/// spec's shape, and whether every hub query answered at all
pub fn observe(c: &Chain, cfg: &Cfg) -> Value {
    use basset::hub::QueryMsg as HQ;
    let mut qok = true;
    qok &= c.try_q::<basset::hub::ConfigResponse, _>("hub", &HQ::Config {}).is_ok();
    qok &= c.try_q::<basset::hub::CurrentBatchResponse, _>("hub", &HQ::CurrentBatch {}).is_ok();
    qok &= c.try_q::<basset::hub::Parameters, _>("hub", &HQ::Parameters {}).is_ok();
    qok &= c.try_q::<basset::hub::AllHistoryResponse, _>("hub", &HQ::AllHistory { start_from: None, limit: None }).is_ok();
    qok &= c.try_q::<basset::hub::NewOwnerResponse, _>("hub", &HQ::NewOwner {}).is_ok();
    for a in cfg.accts() {
        qok &= c.try_q::<basset::hub::UnbondRequestsResponse, _>("hub", &HQ::UnbondRequests { address: a.clone() }).is_ok();
        if basset_sei_hub::state::PARAMETERS.load(c.stores.get("hub").unwrap()).map_or(false, |p| c.time >= p.unbonding_period) {
            qok &= std::panic::catch_unwind(std::panic::AssertUnwindSafe(|| c.try_q::<basset::hub::WithdrawableUnbondedResponse, _>("hub", &HQ::WithdrawableUnbonded { address: a.clone() }).is_ok())).unwrap_or(false);
        }
    }
    let mut withdrawable = Map::new();
    let mut accrued = Map::new();
    for a in cfg.accts() {
        let par = basset_sei_hub::state::PARAMETERS.load(c.stores.get("hub").unwrap()).ok();
        let w = if par.map_or(false, |p| c.time >= p.unbonding_period) {
            std::panic::catch_unwind(std::panic::AssertUnwindSafe(|| {
                c.try_q::<basset::hub::WithdrawableUnbondedResponse, _>("hub", &HQ::WithdrawableUnbonded { address: a.clone() }).map(|r| r.withdrawable.u128()).unwrap_or(0)
            }))
            .unwrap_or(0)
        } else {
            0
        };
        withdrawable.insert(a.clone(), n(w));
        let acc = std::panic::catch_unwind(std::panic::AssertUnwindSafe(|| {
            c.try_q::<basset::reward::AccruedRewardsResponse, _>("reward", &basset::reward::QueryMsg::AccruedRewards { address: a.clone() }).map(|r| r.rewards.u128()).unwrap_or(0)
        }))
        .unwrap_or(0);
        accrued.insert(a.clone(), n(acc));
    }
    match c.try_q::<basset::hub::StateResponse, _>("hub", &HQ::State {}) {
        Ok(_) => json!({"rep": reported(c), "qok": qok, "withdrawable": withdrawable, "accrued": accrued}),
        Err(_) => {
            let s = basset_sei_hub::state::STATE.load(c.stores.get("hub").unwrap()).unwrap();
            json!({"rep": {"bondB": n(s.total_bond_bsei_amount.u128()), "bondSt": n(s.total_bond_stsei_amount.u128()),
                "rateB": limbs(s.bsei_exchange_rate), "rateSt": limbs(s.stsei_exchange_rate),
                "prevBal": n(s.prev_hub_balance.u128()), "lastUnb": s.last_unbonded_time, "lastProc": s.last_processed_batch,
                "lastIdx": s.last_index_modification}, "qok": false, "withdrawable": withdrawable, "accrued": accrued})
        }
    }
}
pub fn reported(c: &Chain) -> Value {
    let s: basset::hub::StateResponse = c.q("hub", &basset::hub::QueryMsg::State {});
    json!({"bondB": n(s.total_bond_bsei_amount.u128()), "bondSt": n(s.total_bond_stsei_amount.u128()),
           "rateB": limbs(s.bsei_exchange_rate), "rateSt": limbs(s.stsei_exchange_rate),
           "prevBal": n(s.prev_hub_balance.u128()), "lastUnb": s.last_unbonded_time, "lastProc": s.last_processed_batch,
           "lastIdx": s.last_index_modification})
}

// legacy (pre-migration) wait list: bucket "wait" / <addr json> / <batch json> -> Uint128
fn read_legacy(st: &Store) -> Vec<Value> {
    // read from the raw storage, not through the contract's own reader: the observation must not depend on the code it judges
    let pfx = cosmwasm_storage::to_length_prefixed(b"wait");
    let entries: Vec<(Vec<u8>, Uint128)> = st.0.iter().filter(|(k, _)| k.starts_with(&pfx))
        .filter_map(|(k, v)| cosmwasm_std::from_json::<Uint128>(v).ok().map(|a| (k[pfx.len()..].to_vec(), a))).collect();
    let mut out = vec![];
    for e in entries {
        {
            let (key, amt) = e;
            // key = 2-byte length || addr json || batch json
            if key.len() < 2 {
                continue;
            }
            let l = ((key[0] as usize) << 8) | key[1] as usize;
            if key.len() < 2 + l {
                continue;
            }
            let addr: String = serde_json::from_slice(&key[2..2 + l]).unwrap_or_default();
            let batch: u64 = serde_json::from_slice(&key[2 + l..]).unwrap_or(0);
            out.push(json!({"u": addr, "i": batch, "amt": n(amt.u128())}));
        }
    }
    out
}
pub fn seed_legacy(c: &mut Chain, entries: &[(String, u64, u128)]) {
    let st = c.stores.get_mut("hub").unwrap();
    // replace the whole legacy list
    let old: Vec<Vec<u8>> = {
        let pfx = cosmwasm_storage::to_length_prefixed(b"wait");
        st.0.keys().filter(|k| k.starts_with(&pfx)).cloned().collect()
    };
    for k in old {
        st.0.remove(&k);
    }
    for (u, i, amt) in entries {
        let addr = cosmwasm_std::to_json_vec(u).unwrap();
        let batch = cosmwasm_std::to_json_vec(i).unwrap();
        let mut b: cosmwasm_storage::Bucket<Uint128> = cosmwasm_storage::Bucket::multilevel(st, &[b"wait", &addr]);
        b.save(&batch, &Uint128::new(*amt)).unwrap();
    }
}

/// C09 "exits do not depend on the reward plumbing", judged on the implementation itself: the transaction is executed on
/// copies of the chain under every mode of the swap / oracle stubs; true when success, effects and resulting state agree
/// (the stub settings themselves excepted).  Only for the transactions C09 names (spec/Props.tla ExitTx).
pub fn is_exit_tx(tx: &Value) -> bool {
    if tx["k"] != "exec" {
        return false;
    }
    let c = tx["c"].as_str().unwrap_or("");
    let k = tx["msg"]["k"].as_str().unwrap_or("");
    c == "bsei" || c == "stsei" || (c == "hub" && ["bond", "bond_for_st_sei", "withdraw_unbonded", "check_slashing"].contains(&k)) || (c == "reward" && k == "claim_rewards")
}
pub fn stubs_same(c: &Chain, cfg: &Cfg, tx: &Value) -> bool {
    let run = |swap: &str, oracle: &str| -> (bool, Vec<Value>, Value) {
        let mut c1 = c.clone();
        c1.swap_mode = swap.into();
        c1.oracle_mode = oracle.into();
        let o = apply(&mut c1, tx);
        c1.swap_mode = c.swap_mode.clone();
        c1.oracle_mode = c.oracle_mode.clone();
        let st = std::panic::catch_unwind(std::panic::AssertUnwindSafe(|| project(&c1, cfg))).unwrap_or(Value::Null);
        (o.ok, if o.ok { o.fx } else { vec![] }, if o.ok { st } else { Value::Null })
    };
    let base = run(&c.swap_mode.clone(), &c.oracle_mode.clone());
    for swap in ["ok", "fail"] {
        for oracle in ["ok", "fail", "zero"] {
            if run(swap, oracle) != base {
                return false;
            }
        }
    }
    true
}

// ------------------------------------------------------------------------------------------------
// executing a specification-level event on the real system

pub struct Outcome {
    pub ok: bool,
    pub err: String,
    pub fx: Vec<Value>,
}

/// `tx` is the spec's event record (Krp.tla Apply): k = "exec" or an environment event
pub fn apply(c: &mut Chain, tx: &Value) -> Outcome {
    let k = tx["k"].as_str().unwrap_or("");
    let env_ok = |ok: bool| Outcome { ok, err: if ok { String::new() } else { "env: not enabled".into() }, fx: vec![] };
    match k {
        "exec" => {
            let sender = tx["sender"].as_str().unwrap();
            let contract = tx["c"].as_str().unwrap();
            let funds: Vec<Coin> = tx["funds"].as_array().map(|a| a.iter().map(|f| Coin::new(f["a"].as_u64().unwrap() as u128, f["d"].as_str().unwrap())).collect()).unwrap_or_default();
            let bin = match msgs::build(contract, &tx["msg"]) {
                Ok(b) => b,
                Err(e) => return Outcome { ok: false, err: format!("HARNESS: cannot build message: {}", e), fx: vec![] },
            };
            match c.tx(sender, contract, bin, funds) {
                Ok(()) => Outcome { ok: true, err: String::new(), fx: c.fx.clone() },
                Err(e) => Outcome { ok: false, err: e, fx: vec![] },
            }
        }
        "advance" => {
            let dt = tx["dt"].as_u64().unwrap();
            if dt > 0 {
                c.advance(dt);
            }
            env_ok(dt > 0)
        }
        "slash" => {
            let v = val_name(tx["v"].as_u64().unwrap());
            let kk = tx["n"].as_u64().unwrap() as u128;
            let d = c.deleg("hub", &v);
            let ok = d / kk > 0 && d - d / kk > 0;
            if ok {
                *c.delegations.get_mut(&("hub".to_string(), v)).unwrap() -= d / kk;
            }
            env_ok(ok)
        }
        "slash_unb" => {
            let v = val_name(tx["v"].as_u64().unwrap());
            let kk = tx["n"].as_u64().unwrap() as u128;
            let ok = c.unbondings.iter().any(|u| u.validator == v && u.amount / kk > 0);
            if ok {
                for u in c.unbondings.iter_mut() {
                    if u.validator == v {
                        u.amount -= u.amount / kk;
                    }
                }
            }
            env_ok(ok)
        }
        "accrue" => {
            let v = val_name(tx["v"].as_u64().unwrap());
            let ok = c.deleg("hub", &v) > 0;
            if ok {
                c.accrue("hub", &v, tx["d"].as_str().unwrap(), tx["a"].as_u64().unwrap() as u128);
            }
            env_ok(ok)
        }
        "donate" => {
            let u = tx["u"].as_str().unwrap();
            let a = tx["a"].as_u64().unwrap() as u128;
            let snap = c.clone();
            match c.send(u, "hub", &[Coin::new(a, "usei")]) {
                Ok(()) => env_ok(true),
                Err(_) => {
                    *c = snap;
                    env_ok(false)
                }
            }
        }
        "deliver" => {
            c.mint_coins("reward", tx["d"].as_str().unwrap(), tx["a"].as_u64().unwrap() as u128);
            env_ok(true)
        }
        "set_airdrop" => {
            c.air_amt = tx["a"].as_u64().unwrap() as u128;
            env_ok(true)
        }
        "fund" => {
            let to = tx["to"].as_str().unwrap();
            let ok = ["hub", "reward", "dispatcher", "keeper", "swap"].contains(&to) || to.starts_with("usr");
            if ok {
                c.mint_coins(to, tx["d"].as_str().unwrap(), tx["a"].as_u64().unwrap() as u128);
            }
            env_ok(ok)
        }
        "instantiate_token" => {
            let addr = tx["c"].as_str().unwrap();
            let init: Vec<cw20::Cw20Coin> = tx["init"].as_array().map(|a| a.iter().map(|e| cw20::Cw20Coin { address: e["a"].as_str().unwrap().to_string(), amount: Uint128::new(e["x"].as_u64().unwrap() as u128) }).collect()).unwrap_or_default();
            let r = if addr == "bsei" {
                c.instantiate(Kind::BSei, "bsei", "owner", to_json_binary(&basset_sei_token_bsei::msg::TokenInitMsg {
                    name: "bsei".into(), symbol: "BSEI".into(), decimals: 6, initial_balances: init, hub_contract: "hub".into() }).unwrap())
            } else {
                c.instantiate(Kind::StSei, "stsei", "owner", to_json_binary(&basset_sei_token_stsei::msg::TokenInitMsg {
                    name: "stsei".into(), symbol: "STSEI".into(), decimals: 6, initial_balances: init, hub_contract: "hub".into(),
                    marketing: Some(cw20_base::msg::InstantiateMarketingInfo { project: None, description: None, marketing: Some("owner".into()), logo: None }) }).unwrap())
            };
            Outcome { ok: r.is_ok(), err: r.err().unwrap_or_default(), fx: vec![] }
        }
        "instantiate" => {
            let sender = tx["sender"].as_str().unwrap();
            let r = if tx["c"] == "hub" {
                c.instantiate(Kind::Hub, "hub", sender, to_json_binary(&basset::hub::InstantiateMsg {
                    epoch_period: tx["epoch"].as_u64().unwrap(), underlying_coin_denom: "usei".into(), unbonding_period: tx["unbonding"].as_u64().unwrap(),
                    peg_recovery_fee: dec_of(&tx["fee"]), er_threshold: dec_of(&tx["thr"]), reward_denom: "kusd".into(),
                    update_reward_index_addr: "updater".into() }).unwrap())
            } else {
                c.instantiate(Kind::Dispatcher, "dispatcher", sender, to_json_binary(&basset_sei_rewards_dispatcher::msg::InstantiateMsg {
                    hub_contract: "hub".into(), bsei_reward_contract: "reward".into(), stsei_reward_denom: tx["stdenom"].as_str().unwrap_or("usei").into(), bsei_reward_denom: "kusd".into(),
                    krp_keeper_address: "keeper".into(), krp_keeper_rate: dec_of(&tx["rate"]), swap_contract: "swap".into(),
                    swap_denoms: vec!["usei".into(), "kusd".into(), "ufor".into()], oracle_contract: "oracle".into() }).unwrap())
            };
            Outcome { ok: r.is_ok(), err: r.err().unwrap_or_default(), fx: vec![] }
        }
        "set_ext" => {
            c.swap_mode = tx["swap"].as_str().unwrap().into();
            c.oracle_mode = tx["oracle"].as_str().unwrap().into();
            c.price = dec_of(&tx["price"]);
            env_ok(true)
        }
        "set_canredel" => {
            c.can_redel.insert(val_name(tx["v"].as_u64().unwrap()), tx["b"].as_bool().unwrap());
            env_ok(true)
        }
        "set_legacy" => {
            let entries: Vec<(String, u64, u128)> = tx["entries"].as_array().map(|a| a.iter().map(|e| (e["u"].as_str().unwrap().to_string(), e["i"].as_u64().unwrap(), e["amt"].as_u64().unwrap() as u128)).collect()).unwrap_or_default();
            seed_legacy(c, &entries);
            env_ok(true)
        }
        other => Outcome { ok: false, err: format!("HARNESS: unknown event kind {}", other), fx: vec![] },
    }
}

/// structural comparison of a projected state with a state printed by TLC (ToJson):
/// returns the paths that differ
pub fn diff(path: &str, spec: &Value, imp: &Value, out: &mut Vec<String>) {
    match (spec, imp) {
        (Value::Object(a), Value::Object(b)) => {
            for (k, v) in a {
                match b.get(k) {
                    Some(w) => diff(&format!("{}.{}", path, k), v, w, out),
                    None => out.push(format!("{}.{}: missing in implementation projection", path, k)),
                }
            }
            for k in b.keys() {
                if !a.contains_key(k) {
                    out.push(format!("{}.{}: missing in specification state", path, k));
                }
            }
        }
        (Value::Array(a), Value::Array(b)) => {
            if a.len() != b.len() {
                out.push(format!("{}: spec {} impl {}", path, spec, imp));
            } else {
                for (i, (x, y)) in a.iter().zip(b.iter()).enumerate() {
                    diff(&format!("{}[{}]", path, i + 1), x, y, out);
                }
            }
        }
        // TLC prints an empty function/sequence as [] and an empty record as {}; treat them alike
        (Value::Array(a), Value::Object(b)) | (Value::Object(b), Value::Array(a)) if a.is_empty() && b.is_empty() => {}
        _ => {
            if spec != imp {
                out.push(format!("{}: spec {} impl {}", path, spec, imp));
            }
        }
    }
}
