------------------------------ MODULE KrpTrace ------------------------------
(* Trace validation in monitor mode (DESIGN.md Appendix B).  The file IOEnv.TRACE holds one JSON
   line per event executed on the REAL contracts: [tx, ok, err, fx, st, obs] - the event, its
   outcome and effects, the projected post-state and the answers of the public queries.
   The variables are bound to the logged states, so every invariant and action property of
   PropDefs is evaluated on the implementation's own states; the specification's outcome function
   is evaluated on each logged pre-state and compared with what the implementation did
   (conformance flag `conf`, first non-conformant line `firstBad`) without pruning the search. *)
EXTENDS PropDefs, Json, IOUtils, TLCExt

VARIABLES l, conf, firstBad, badInfo
tvars == <<vars, l, conf, firstBad, badInfo>>

Rec == ndJsonDeserialize(IOEnv.TRACE)

\* JSON has no sets: the registry's validator set is logged as an array
FromLog(st) == [st EXCEPT !.reg.vals = SeqRange(@)]

TInit == Init /\ l = 1 /\ conf = TRUE /\ firstBad = 0 /\ badInfo = <<>>

TNext ==
  /\ l <= Len(Rec)
  /\ l' = l + 1
  /\ LET r  == Rec[l]
         wl == FromLog(r.st)
     IN IF r.tx.k = "reset"
        THEN /\ w' = wl /\ g' = [InitGhost EXCEPT !.steps = l] /\ obs' = r.obs
             /\ ev' = [tx |-> r.tx, ok |-> TRUE, err |-> "", fx |-> <<>>, same |-> TRUE]
             /\ LET okk == r.obs = ObsOf(wl) IN
                /\ conf' = (conf /\ okk)
                /\ firstBad' = IF firstBad = 0 /\ ~okk THEN l ELSE firstBad
                /\ badInfo' = IF firstBad = 0 /\ ~okk THEN <<"reset: observations differ">> ELSE badInfo
        ELSE /\ w' = wl /\ obs' = r.obs
             /\ ev' = [tx |-> r.tx, ok |-> r.ok, err |-> r.err, fx |-> r.fx, same |-> r.same]
             /\ g' = [GhostNext(g, w, r.tx, r.ok, wl, r.fx) EXCEPT !.steps = l]
             /\ LET o   == Apply(r.tx, w)
                    okk == /\ o.ok = r.ok
                           /\ o.w = wl
                           /\ (r.ok => o.fx = r.fx)
                           /\ r.obs = ObsOf(wl)
                IN /\ conf' = (conf /\ okk)
                   /\ firstBad' = IF firstBad = 0 /\ ~okk THEN l ELSE firstBad
                   /\ badInfo' = IF firstBad = 0 /\ ~okk
                                 THEN [specOk |-> o.ok, implOk |-> r.ok, specErr |-> o.err,
                                       fields |-> {f \in DOMAIN wl : o.w[f] # wl[f]},
                                       fxSame |-> (~r.ok \/ o.fx = r.fx), obsSame |-> (r.obs = ObsOf(wl))]
                                 ELSE badInfo

TSpec == TInit /\ [][TNext]_tvars

\* fires in the last state: one line with the verdict on conformance
Report == l <= Len(Rec) \/ (PrintT(<<"TRACE-RESULT", [events |-> Len(Rec), conformant |-> conf, firstBad |-> firstBad]>>) /\ (conf \/ PrintT(<<"FIRST-BAD", badInfo>>)))
\* the whole log was consumed
Accepted == TLCGet("stats").diameter - 1 = Len(Rec)
=============================================================================
