CONSTANTS
  Users = {"usr1", "usr2"}
  NV = 1
  MaxBatch = 3
  Epoch = 2
  Unbonding = 5
  Fee <- FeeHalf
  Thr <- ThrOne
  KeeperRate <- Rate005
  Price <- PriceOne
  T0 = 1000
  UserFunds = 1000
  InitVals = {1}
  Amts = {1, 3, 10}
  Dts = {3, 5}
  SlashDiv = {2, 10}
  MaxSteps = 4
  MaxTime = 1030
  EmitLen = 0
  OnlyOk = FALSE
  Known = {"K1", "K2", "K3"}
INIT Init
NEXT Next
VIEW View
CONSTRAINT Bound
CHECK_DEADLOCK FALSE
INVARIANTS Inv_C01 Inv_C03 Inv_C05 Inv_C06 Inv_C07 Inv_C08 Inv_C16 Inv_C18
PROPERTIES Act_C01 Act_C02 Act_C03 Act_C04 Act_C05 Act_C06 Act_C07 Act_C08 Act_C09
