-------------------------------- MODULE Util --------------------------------
EXTENDS Integers, Sequences, FiniteSets
Min(a, b) == IF a < b THEN a ELSE b
Max(a, b) == IF a > b THEN a ELSE b
Abs(x) == IF x < 0 THEN -x ELSE x
RECURSIVE SumFn(_, _)
SumFn(f, S) == IF S = {} THEN 0 ELSE LET x == CHOOSE y \in S : TRUE IN f[x] + SumFn(f, S \ {x})
RECURSIVE SumSeqN(_, _)
SumSeqN(s, n) == IF n = 0 THEN 0 ELSE s[n] + SumSeqN(s, n - 1)
SumSeq(s) == SumSeqN(s, Len(s))
SeqRange(s) == {s[i] : i \in 1..Len(s)}
\* the elements of a set of integers as an ascending sequence
RECURSIVE SetToSeqAsc(_)
SetToSeqAsc(S) == IF S = {} THEN <<>>
                  ELSE LET m == CHOOSE x \in S : \A y \in S : x <= y IN <<m>> \o SetToSeqAsc(S \ {m})
\* stable insertion sort of a sequence of records by their integer field `d`
RECURSIVE InsertByD(_, _, _)
InsertByD(sorted, e, sign) ==
  IF sorted = <<>> THEN <<e>>
  ELSE IF sign * Head(sorted).d <= sign * e.d THEN <<Head(sorted)>> \o InsertByD(Tail(sorted), e, sign)
       ELSE <<e>> \o sorted
RECURSIVE SortByDFrom(_, _, _, _)
SortByDFrom(s, i, acc, sign) == IF i > Len(s) THEN acc ELSE SortByDFrom(s, i + 1, InsertByD(acc, s[i], sign), sign)
StableSortAscD(s)  == SortByDFrom(s, 1, <<>>, 1)
StableSortDescD(s) == SortByDFrom(s, 1, <<>>, -1)
SeqContains(s, x) == \E i \in 1..Len(s) : s[i] = x
SeqRemoveAll(s, x) == SelectSeq(s, LAMBDA e : e # x)
=============================================================================
