--------------------------------- MODULE Hub ---------------------------------
(* contracts/basset_sei_hub, handler by handler, in the order the code reads and writes.
   hubCfg = [owner, nominee, updater, dispatcher, registry, bsei, stsei, airdrop, rewards]  ("" = unset)
   hubPar = [epoch, unbonding, fee, thr, denom, rdenom, paused]
   hub    = [bondB, bondSt, rateB, rateSt, prevBal, lastUnb, lastProc, lastIdx]   (State - the rates are stored values)
   batch  = [id, reqB, reqSt];  hist = sequence of batch records;  wait[u][i] = [b, st]
   legacy = sequence of [u, i, amt]  (old-format wait list, in storage key order)                *)
EXTENDS Reward

Rate(bond, claims) == IF bond = 0 \/ claims = 0 THEN One ELSE DecFromRatio(bond, claims)
NoWait == [b |-> 0, st |-> 0]

-----------------------------------------------------------------------------
\* contract.rs query_actual_state / slashing(): [ok, h]
ActualState(w) ==
  LET h   == w.hub
      d   == TotalDeleg(w)
      tot == h.bondB + h.bondSt
  IN IF d = 0 \/ tot = 0 THEN [ok |-> TRUE, h |-> h]
     ELSE LET sb == QSupply(w, w.hubCfg.bsei)
              ss == QSupply(w, w.hubCfg.stsei)
          IN IF ~sb.ok \/ ~ss.ok THEN [ok |-> FALSE, h |-> h]
             ELSE LET nb  == IF tot > d THEN MulDec(d, DecFromRatio(h.bondB, tot)) ELSE h.bondB
                      nst == IF tot > d THEN d - nb ELSE h.bondSt
                  IN [ok |-> TRUE,
                      h  |-> [h EXCEPT !.bondB = nb, !.bondSt = nst,
                                       !.rateB  = Rate(nb, sb.v + w.batch.reqB),
                                       !.rateSt = Rate(nst, ss.v + w.batch.reqSt)]]

\* the State query as seen from outside (StateResponse); the model is total: a failing query reports the stored state
Reported(w) == ActualState(w).h

-----------------------------------------------------------------------------
\* bond.rs execute_bond; kind \in {"bsei", "stsei", "rewards"}
HubBond(w, sender, funds, kind) ==
  LET cfg == w.hubCfg  par == w.hubPar IN
  IF cfg.dispatcher = "" THEN HErr(w, "hub: dispatcher not registered")
  ELSE IF kind = "rewards" /\ sender # cfg.dispatcher THEN HErr(w, "hub: unauthorized")
  ELSE IF Len(funds) > 1 THEN HErr(w, "hub: more than one coin")
  ELSE IF Len(funds) = 0 THEN HErr(w, "hub: no assets")
  ELSE IF funds[1].d # par.denom \/ funds[1].a <= 0 THEN HErr(w, "hub: no assets")
  ELSE
  LET pay == funds[1].a
      sy  == ActualState(w)
  IN IF ~sy.ok THEN HErr(w, "hub: token query failed")
  ELSE
  LET h     == sy.h
      tokA  == IF kind = "bsei" THEN cfg.bsei ELSE cfg.stsei
      sup0  == QSupply(w, tokA).v                            \* unwrap_or_default()
      req   == IF kind = "bsei" THEN w.batch.reqB ELSE w.batch.reqSt
      rate  == IF kind = "bsei" THEN h.rateB ELSE h.rateSt
      m0    == IF kind = "rewards" THEN 0 ELSE DivDec(pay, rate)
      charge == kind = "bsei" /\ DecLt(h.rateB, par.thr)
      gap   == (sup0 + m0 + w.batch.reqB) - (h.bondB + pay)
      fee   == IF charge THEN Min(MulDec(m0, par.fee), gap) ELSE 0
      mint  == m0 - fee
      h2    == IF kind = "bsei" THEN [h EXCEPT !.bondB = @ + pay, !.rateB = Rate(h.bondB + pay, sup0 + mint + req)]
               ELSE IF kind = "rewards" THEN [h EXCEPT !.bondSt = @ + pay, !.rateSt = Rate(h.bondSt + pay, sup0 + req)]
               ELSE [h EXCEPT !.bondSt = @ + pay]
      vq    == QValidators(w, cfg.registry)
  IN IF kind # "rewards" /\ IsZeroDec(rate) THEN HErr(w, "hub: division by zero rate")
     ELSE IF charge /\ gap < 0 THEN HErr(w, "hub: peg fee underflow")
     ELSE IF mint < 0 THEN HErr(w, "hub: fee exceeds mint")
     ELSE IF cfg.registry = "" THEN HErr(w, "hub: registry not registered")
     ELSE IF ~vq.ok THEN HErr(w, "hub: registry query failed")
     ELSE IF Len(vq.v) = 0 THEN HErr(w, "hub: registry empty")
     ELSE
     LET plan == CalcDelegations(pay, [i \in 1..Len(vq.v) |-> vq.v[i].d]).plan
         idx  == SelectSeq([i \in 1..Len(vq.v) |-> i], LAMBDA i : plan[i] > 0)
         dmsg == [j \in 1..Len(idx) |-> DelegateMsg(vq.v[idx[j]].v, plan[idx[j]])]
         w2   == [w EXCEPT !.hub = h2]
     IN IF kind = "rewards" THEN HOk(w2, dmsg)
        ELSE IF tokA = "" THEN HErr(w, "hub: token not registered")
        ELSE HOk(w2, Append(dmsg, WasmMsg(tokA, [k |-> "mint", recipient |-> sender, amount |-> mint], <<>>)))

-----------------------------------------------------------------------------
\* unbond.rs pick_validator + process_undelegations: [ok, h, batch, rec, msgs]
Undelegation(w, h, b) ==
  LET stU  == MulDec(b.reqSt, h.rateSt)
      bU   == MulDec(b.reqB, h.rateB)
      dv   == DelegatedVals(w)
      srt  == StableSortDescD([i \in 1..Len(dv) |-> [v |-> dv[i], d |-> w.deleg[dv[i]]]])
      cu   == CalcUndelegations(bU + stU, [i \in 1..Len(srt) |-> srt[i].d])
      idx  == IF cu.ok THEN SelectSeq([i \in 1..Len(srt) |-> i], LAMBDA i : cu.plan[i] > 0) ELSE <<>>
  IN [ ok    |-> cu.ok /\ stU <= h.bondSt /\ bU <= h.bondB,
       h     |-> [h EXCEPT !.bondSt = @ - stU, !.bondB = @ - bU, !.lastUnb = w.now],
       batch |-> [id |-> b.id + 1, reqB |-> 0, reqSt |-> 0],
       rec   |-> [id |-> b.id, time |-> w.now, bAmt |-> b.reqB, bRate |-> h.rateB, bW |-> h.rateB,
                  stAmt |-> b.reqSt, stRate |-> h.rateSt, stW |-> h.rateSt, released |-> FALSE],
       msgs  |-> [j \in 1..Len(idx) |-> UndelegateMsg(srt[idx[j]].v, cu.plan[idx[j]])] ]

\* The unbond history is a map keyed by batch id; the model keeps it as the sequence of entries
\* in id order and requires ids to be consecutive (they are: the id only ever increments).
PutHistory(hist, rec) == IF rec.id = Len(hist) + 1 THEN Append(hist, rec)
                         ELSE IF rec.id <= Len(hist) THEN [hist EXCEPT ![rec.id] = rec]
                         ELSE Append(hist, rec)

AddWait(w, u, i, fb, fst) == [w EXCEPT !.wait[u][i] = [b |-> @.b + fb, st |-> @.st + fst]]

\* execute_unbond (bSei), called through Receive with the cw20 sender
HubUnbondB(w, amt, user) ==
  LET par == w.hubPar
      sy  == ActualState(w)
      sq  == QSupply(w, w.hubCfg.bsei)
  IN IF ~sy.ok THEN HErr(w, "hub: token query failed")
  ELSE IF ~sq.ok THEN HErr(w, "hub: token query failed")
  ELSE
  LET h      == sy.h
      charge == DecLt(h.rateB, par.thr)
      gap    == (sq.v + w.batch.reqB) - h.bondB
      fee    == IF charge THEN Min(MulDec(amt, par.fee), gap) ELSE 0
      awf    == amt - fee
      b1     == [w.batch EXCEPT !.reqB = @ + awf]
      h1     == [h EXCEPT !.rateB = Rate(h.bondB, (sq.v - amt) + b1.reqB)]
      und    == w.now - h.lastUnb > par.epoch
      r      == Undelegation(w, h1, b1)
  IN IF charge /\ gap < 0 THEN HErr(w, "hub: peg fee underflow")
     ELSE IF awf < 0 THEN HErr(w, "hub: fee exceeds amount")
     ELSE IF user \notin Accts \/ w.batch.id > MaxBatch THEN HErr(w, "MODEL: wait list outside the modelled range")
     ELSE IF sq.v < amt THEN HErr(w, "hub: supply underflow")
     ELSE IF und /\ ~r.ok THEN HErr(w, "hub: undelegation failed")
     ELSE IF w.hubCfg.bsei = "" THEN HErr(w, "hub: token not registered")
     ELSE LET w1 == AddWait(w, user, w.batch.id, awf, 0)
              burn == WasmMsg(w.hubCfg.bsei, [k |-> "burn", amount |-> amt], <<>>)
          IN IF und THEN HOk([w1 EXCEPT !.hub = r.h, !.batch = r.batch, !.hist = PutHistory(@, r.rec)], Append(r.msgs, burn))
             ELSE HOk([w1 EXCEPT !.hub = h1, !.batch = b1], <<burn>>)

\* execute_unbond_stsei
HubUnbondSt(w, amt, user) ==
  LET par == w.hubPar
      sy  == ActualState(w)
  IN IF ~sy.ok THEN HErr(w, "hub: token query failed")
  ELSE
  LET h   == sy.h
      b1  == [w.batch EXCEPT !.reqSt = @ + amt]
      und == w.now - h.lastUnb > par.epoch
      r   == Undelegation(w, h, b1)
  IN IF user \notin Accts \/ w.batch.id > MaxBatch THEN HErr(w, "MODEL: wait list outside the modelled range")
     ELSE IF und /\ ~r.ok THEN HErr(w, "hub: undelegation failed")
     ELSE IF w.hubCfg.stsei = "" THEN HErr(w, "hub: token not registered")
     ELSE LET w1 == AddWait(w, user, w.batch.id, 0, amt)
              burn == WasmMsg(w.hubCfg.stsei, [k |-> "burn", amount |-> amt], <<>>)
          IN IF und THEN HOk([w1 EXCEPT !.hub = r.h, !.batch = r.batch, !.hist = PutHistory(@, r.rec)], Append(r.msgs, burn))
             ELSE HOk([w1 EXCEPT !.hub = h, !.batch = b1], <<burn>>)

-----------------------------------------------------------------------------
\* convert.rs
HubConvertStB(w, amt, user) ==
  LET par == w.hubPar  cfg == w.hubCfg
      sy  == ActualState(w)
      sb  == QSupply(w, cfg.bsei)
      ss  == QSupply(w, cfg.stsei)
  IN IF ~sy.ok \/ cfg.bsei = "" \/ cfg.stsei = "" \/ ~sb.ok \/ ~ss.ok THEN HErr(w, "hub: token query failed")
  ELSE
  LET h      == sy.h
      den    == MulDec(amt, h.rateSt)
      m0     == DivDec(den, h.rateB)
      charge == DecLt(h.rateB, par.thr)
      gap    == (sb.v + m0 + w.batch.reqB) - (h.bondB + den)
      fee    == IF charge THEN Min(MulDec(m0, par.fee), gap) ELSE 0
      mint   == m0 - fee
      h2     == [h EXCEPT !.bondB = @ + den, !.bondSt = @ - den,
                          !.rateB  = Rate(h.bondB + den, sb.v + mint + w.batch.reqB),
                          !.rateSt = Rate(h.bondSt - den, (ss.v - amt) + w.batch.reqSt)]
  IN IF IsZeroDec(h.rateB) THEN HErr(w, "hub: division by zero rate")
     ELSE IF charge /\ gap < 0 THEN HErr(w, "hub: peg fee underflow")
     ELSE IF mint < 0 THEN HErr(w, "hub: fee exceeds mint")
     ELSE IF den > h.bondSt THEN HErr(w, "hub: decrease exceeds stsei bond")
     ELSE IF amt > ss.v THEN HErr(w, "hub: decrease exceeds stsei supply")
     ELSE HOk([w EXCEPT !.hub = h2],
              << WasmMsg(cfg.bsei, [k |-> "mint", recipient |-> user, amount |-> mint], <<>>),
                 WasmMsg(cfg.stsei, [k |-> "burn", amount |-> amt], <<>>) >>)

HubConvertBSt(w, amt, user) ==
  LET par == w.hubPar  cfg == w.hubCfg
      sy  == ActualState(w)
      sb  == QSupply(w, cfg.bsei)
      ss  == QSupply(w, cfg.stsei)
  IN IF ~sy.ok \/ cfg.bsei = "" \/ cfg.stsei = "" \/ ~sb.ok \/ ~ss.ok THEN HErr(w, "hub: token query failed")
  ELSE
  LET h      == sy.h
      charge == DecLt(h.rateB, par.thr)
      gap    == (sb.v + w.batch.reqB) - h.bondB
      \* the converted tokens leave the pool: only the gap attributable to the remaining claims is recovered
      cap    == IF amt > gap /\ h.bondB > 0 THEN MulDivFloor(gap, (sb.v + w.batch.reqB) - amt, h.bondB) ELSE gap
      fee    == IF charge THEN Min(MulDec(amt, par.fee), cap) ELSE 0
      awf    == amt - fee
      den    == MulDec(awf, h.rateB)
      mint   == DivDec(den, h.rateSt)
      h2     == [h EXCEPT !.bondB = @ - den, !.bondSt = @ + den,
                          !.rateB  = Rate(h.bondB - den, (sb.v - amt) + w.batch.reqB),
                          !.rateSt = Rate(h.bondSt + den, ss.v + mint + w.batch.reqSt)]
  IN IF charge /\ gap < 0 THEN HErr(w, "hub: peg fee underflow")
     ELSE IF awf < 0 THEN HErr(w, "hub: fee exceeds amount")
     ELSE IF IsZeroDec(h.rateSt) THEN HErr(w, "hub: division by zero rate")
     ELSE IF den > h.bondB THEN HErr(w, "hub: decrease exceeds bsei bond")
     ELSE IF amt > sb.v THEN HErr(w, "hub: decrease exceeds bsei supply")
     ELSE HOk([w EXCEPT !.hub = h2],
              << WasmMsg(cfg.stsei, [k |-> "mint", recipient |-> user, amount |-> mint], <<>>),
                 WasmMsg(cfg.bsei, [k |-> "burn", amount |-> amt], <<>>) >>)

\* receive_cw20: msg = [k |-> "receive", sender, amount, hook]
HubReceive(w, sender, msg) ==
  LET cfg == w.hubCfg IN
  IF cfg.bsei = "" \/ cfg.stsei = "" THEN HErr(w, "hub: tokens not registered")
  ELSE IF msg.hook = "unbond" THEN
         IF sender = cfg.bsei THEN HubUnbondB(w, msg.amount, msg.sender)
         ELSE IF sender = cfg.stsei THEN HubUnbondSt(w, msg.amount, msg.sender)
         ELSE HErr(w, "hub: unauthorized")
  ELSE IF msg.hook = "convert" THEN
         IF sender = cfg.bsei THEN HubConvertBSt(w, msg.amount, msg.sender)
         ELSE IF sender = cfg.stsei THEN HubConvertStB(w, msg.amount, msg.sender)
         ELSE HErr(w, "hub: unauthorized")
  ELSE HErr(w, "hub: cannot parse hook message")

-----------------------------------------------------------------------------
\* unbond.rs process_withdraw_rate and helpers
ReleaseGroup(hist, lastProc, ht) ==
  LET RECURSIVE G(_)
      G(i) == IF i <= Len(hist) /\ hist[i].time <= ht /\ ~hist[i].released THEN {i} \cup G(i + 1) ELSE {}
  IN G(lastProc + 1)

\* calculate_new_withdraw_rate(amount, withdraw_rate, total_unbonded, slashed = (|x|, negative?))
\* (a batch whose slashed share exceeds its unbonded amount is credited zero)
NewWithdrawRate(amt, rate, total, slashed, neg) ==
  LET unb == MulDec(amt, rate)
      wgt == IF total # 0 THEN DecFromRatio(unb, total) ELSE Zero
      sb0 == MulDec(slashed, wgt)
      act == IF neg THEN unb + (IF sb0 > 1 THEN sb0 - 1 ELSE 0)
             ELSE LET sb == IF slashed # 0 THEN sb0 + 1 ELSE sb0 IN IF unb >= sb THEN unb - sb ELSE 0
  IN IF amt # 0 THEN DecFromRatio(act, amt) ELSE rate

ReleasedHistory(hist, G, arrived) ==
  LET stTot == SumFn([i \in G |-> MulDec(hist[i].stAmt, hist[i].stW)], G)
      bTot  == SumFn([i \in G |-> MulDec(hist[i].bAmt, hist[i].bW)], G)
      ratioB == IF stTot + bTot > 0 THEN DecSub(One, DecFromRatio(stTot, stTot + bTot)) ELSE Zero
      bAct  == MulDec(arrived, ratioB)
      bSl   == bTot - bAct
      stSl  == stTot - (arrived - bAct)
  IN [i \in 1..Len(hist) |->
        IF i \in G
        THEN [hist[i] EXCEPT !.bW  = NewWithdrawRate(hist[i].bAmt, hist[i].bW, bTot, Abs(bSl), bSl < 0),
                             !.stW = NewWithdrawRate(hist[i].stAmt, hist[i].stW, stTot, Abs(stSl), stSl < 0),
                             !.released = TRUE]
        ELSE hist[i]]

ClaimOn(hist, wt, i) == MulDec(wt[i].st, hist[i].stW) + MulDec(wt[i].b, hist[i].bW)
MineReleased(hist, wt) == {i \in 1..Min(Len(hist), MaxBatch) : hist[i].released /\ wt[i] # NoWait}

\* execute_withdraw_unbonded
HubWithdraw(w, sender) ==
  LET par == w.hubPar IN
  IF w.now < par.unbonding THEN HErr(w, "hub: time underflow")
  ELSE
  LET ht   == w.now - par.unbonding
      bal  == QBalance(w, "hub", par.denom)
      G    == ReleaseGroup(w.hist, w.hub.lastProc, ht)
      h2   == IF G = {} THEN w.hist ELSE ReleasedHistory(w.hist, G, bal - w.hub.prevBal)
      lp   == IF G = {} THEN w.hub.lastProc ELSE w.hub.lastProc + Cardinality(G)
      wt   == IF sender \in Accts THEN w.wait[sender] ELSE [i \in 1..MaxBatch |-> NoWait]
      S    == MineReleased(h2, wt)
      amt  == SumFn([i \in S |-> ClaimOn(h2, wt, i)], S)
  IN IF G # {} /\ bal < w.hub.prevBal THEN HErr(w, "hub: balance below previous balance")
     ELSE IF amt = 0 THEN HErr(w, "hub: nothing withdrawable")
     ELSE IF bal < amt THEN HErr(w, "hub: balance below withdraw amount")
     ELSE HOk([w EXCEPT !.hist = h2,
                        !.hub = [@ EXCEPT !.lastProc = lp, !.prevBal = bal - amt],
                        !.wait[sender] = [i \in 1..MaxBatch |-> IF i \in S THEN NoWait ELSE @[i]]],
              <<BankMsg(sender, par.denom, amt)>>)

\* WithdrawableUnbonded query (strict `<`, and regardless of the released flag)
QueryWithdrawable(w, u) ==
  IF w.now < w.hubPar.unbonding THEN 0
  ELSE LET ht == w.now - w.hubPar.unbonding
           S  == {i \in 1..Min(Len(w.hist), MaxBatch) : w.hist[i].time < ht}
       IN SumFn([i \in S |-> ClaimOn(w.hist, w.wait[u], i)], S)

-----------------------------------------------------------------------------
\* execute_update_global
HubUpdateGlobal(w, sender, msg) ==
  LET cfg == w.hubCfg IN
  IF sender # cfg.updater /\ (cfg.registry = "" \/ sender # cfg.registry) THEN HErr(w, "hub: unauthorized")
  ELSE IF cfg.dispatcher = "" THEN HErr(w, "hub: dispatcher not registered")
  ELSE IF msg.hooks # 0 /\ cfg.airdrop = "" THEN HErr(w, "hub: airdrop registry not registered")
  ELSE LET dv == DelegatedVals(w)
       IN HOk([w EXCEPT !.hub.lastIdx = w.now],
              [i \in 1..msg.hooks |-> WasmMsg(cfg.airdrop, [k |-> "fabricate_claim"], <<>>)]
              \o [i \in 1..Len(dv) |-> WdRewardMsg(dv[i])]
              \o << WasmMsg(cfg.dispatcher, [k |-> "swap_to_reward_denom", stsei_total_bonded |-> w.hub.bondSt,
                                             bsei_total_bonded |-> w.hub.bondB], <<>>),
                    WasmMsg(cfg.dispatcher, [k |-> "dispatch_rewards"], <<>>) >>)

HubRedelegateProxy(w, sender, msg) ==
  IF w.hubCfg.registry = "" THEN HErr(w, "hub: registry not registered")
  ELSE IF sender # w.hubCfg.registry THEN HErr(w, "hub: unauthorized")
  ELSE HOk(w, [i \in 1..Len(msg.redelegations) |-> RedelegateMsg(msg.src, msg.redelegations[i].v, msg.redelegations[i].a)])

\* config.rs
HubUpdateConfig(w, sender, msg) ==
  LET cfg == w.hubCfg IN
  IF sender # cfg.owner THEN HErr(w, "hub: unauthorized")
  ELSE IF msg.bsei # "" /\ cfg.bsei # "" THEN HErr(w, "hub: updating bsei token address is forbidden")
  ELSE IF msg.stsei # "" /\ cfg.stsei # "" THEN HErr(w, "hub: updating stsei token address is forbidden")
  ELSE HOk([w EXCEPT !.hubCfg = [cfg EXCEPT
                 !.dispatcher = IF msg.dispatcher = "" THEN @ ELSE msg.dispatcher,
                 !.bsei       = IF msg.bsei = "" THEN @ ELSE msg.bsei,
                 !.stsei      = IF msg.stsei = "" THEN @ ELSE msg.stsei,
                 !.airdrop    = IF msg.airdrop = "" THEN @ ELSE msg.airdrop,
                 !.registry   = IF msg.registry = "" THEN @ ELSE msg.registry,
                 !.rewards    = IF msg.rewards = "" THEN @ ELSE msg.rewards,
                 !.updater    = IF msg.updater = "" THEN @ ELSE msg.updater]],
           IF msg.dispatcher = "" THEN <<>> ELSE <<SetWdMsg(msg.dispatcher)>>)

\* msg = [k, epoch, unbonding (NoneInt = omitted), fee, thr (NoneDec), rdenom (""), paused \in {"", "t", "f"}]
HubUpdateParams(w, sender, msg) ==
  LET par == w.hubPar IN
  IF sender # w.hubCfg.owner THEN HErr(w, "hub: unauthorized")
  ELSE IF msg.fee # NoneDec /\ DecLt(One, msg.fee) THEN HErr(w, "hub: peg_recovery_fee can not be greater than 1")
  ELSE IF msg.paused # "t" /\ Len(w.legacy) > 0 THEN HErr(w, "hub: cannot unpause with old unbond wait lists")
  ELSE HOk([w EXCEPT !.hubPar = [par EXCEPT
                 !.epoch     = IF msg.epoch = NoneInt THEN @ ELSE msg.epoch,
                 !.unbonding = IF msg.unbonding = NoneInt THEN @ ELSE msg.unbonding,
                 !.fee       = IF msg.fee = NoneDec THEN @ ELSE msg.fee,
                 !.thr       = DecMin(IF msg.thr = NoneDec THEN @ ELSE msg.thr, One),
                 !.rdenom    = IF msg.rdenom = "" THEN @ ELSE msg.rdenom,
                 !.paused    = msg.paused = "t"]], <<>>)

\* state.rs migrate_unbond_wait_lists; limit = NoneInt means the default (1000)
HubMigrate(w, limit) ==
  IF Len(w.legacy) = 0 THEN HOk(w, <<>>)
  ELSE LET n == Min(Len(w.legacy), IF limit = NoneInt THEN 1000 ELSE limit)
           RECURSIVE Move(_, _)
           Move(wt, i) == IF i > n THEN wt
                          ELSE LET e == w.legacy[i] IN Move([wt EXCEPT ![e.u][e.i].b = @ + e.amt], i + 1)      \* (F4: added, not replaced)
           rest == SubSeq(w.legacy, n + 1, Len(w.legacy))
       IN HOk([w EXCEPT !.wait = Move(@, 1), !.legacy = rest,
                        !.hubPar.paused = IF Len(rest) = 0 THEN FALSE ELSE @], <<>>)

HubClaimAirdrop(w, sender, msg) ==
  IF w.hubCfg.airdrop = "" THEN HErr(w, "hub: airdrop registry not registered")
  ELSE IF sender # w.hubCfg.airdrop THEN HErr(w, "hub: unauthorized")
  ELSE HOk(w, << WasmMsg(msg.airdrop_contract, [k |-> "claim"], <<>>),
                 WasmMsg("hub", [k |-> "swap_hook", airdrop_token_contract |-> msg.airdrop_token_contract,
                                 airdrop_swap_contract |-> msg.airdrop_swap_contract], <<>>) >>)

\* swap_hook: the hub sends its whole balance of the airdrop token to the pair; the balance query is answered by the
\* airdrop-token stub only (any other address: no such contract)
HubSwapHook(w, sender, msg) ==
  IF sender # "hub" THEN HErr(w, "hub: unauthorized")
  ELSE IF msg.airdrop_token_contract # "airtoken" THEN HErr(w, "hub: airdrop token query failed")
  ELSE IF w.air.hub = 0 THEN HErr(w, "hub: no airdrop token balance")
  ELSE HOk(w, <<WasmMsg("airtoken", [k |-> "send", contract |-> msg.airdrop_swap_contract, amount |-> w.air.hub, hook |-> "swap"], <<>>)>>)

-----------------------------------------------------------------------------
\* contract.rs execute
HubHandle(w, sender, msg, funds) ==
  IF msg.k = "migrate_unbond_wait_list"
  THEN IF w.hubPar.paused THEN HubMigrate(w, msg.limit) ELSE HErr(w, "hub: migrate needs the contract paused")
  ELSE IF msg.k = "update_params" THEN HubUpdateParams(w, sender, msg)
  ELSE IF w.hubPar.paused THEN HErr(w, "hub: paused")
  ELSE CASE msg.k = "receive"             -> HubReceive(w, sender, msg)
         [] msg.k = "bond"                -> HubBond(w, sender, funds, "bsei")
         [] msg.k = "bond_for_st_sei"     -> HubBond(w, sender, funds, "stsei")
         [] msg.k = "bond_rewards"        -> HubBond(w, sender, funds, "rewards")
         [] msg.k = "update_global_index" -> HubUpdateGlobal(w, sender, msg)
         [] msg.k = "withdraw_unbonded"   -> HubWithdraw(w, sender)
         [] msg.k = "check_slashing"      -> LET sy == ActualState(w) IN
                                             IF sy.ok THEN HOk([w EXCEPT !.hub = sy.h], <<>>) ELSE HErr(w, "hub: token query failed")
         [] msg.k = "update_config"       -> HubUpdateConfig(w, sender, msg)
         [] msg.k = "set_owner"           -> IF sender # w.hubCfg.owner THEN HErr(w, "hub: unauthorized")
                                             ELSE HOk([w EXCEPT !.hubCfg.nominee = msg.new_owner_addr], <<>>)
         [] msg.k = "accept_ownership"    -> IF sender # w.hubCfg.nominee THEN HErr(w, "hub: unauthorized")
                                             ELSE HOk([w EXCEPT !.hubCfg.owner = w.hubCfg.nominee], <<>>)
         [] msg.k = "swap_hook"           -> HubSwapHook(w, sender, msg)
         [] msg.k = "claim_airdrop"       -> HubClaimAirdrop(w, sender, msg)
         [] msg.k = "redelegate_proxy"    -> HubRedelegateProxy(w, sender, msg)
         [] OTHER -> HErr(w, "hub: unknown message")
=============================================================================
