-------------------------------- MODULE Cw20 --------------------------------
(* The two token contracts.
     bsei  = packages/cw20-legacy wrapped by contracts/basset_sei_token_bsei  (reward hooks)
     stsei = cw20-base 0.16 wrapped by contracts/basset_sei_token_stsei       (CheckSlashing hook)
   A token is a record [hub, minter, supply, bal, other, allow, marketing]:
     bal[a] for a \in Accts, `other` = total held by accounts outside Accts,
     allow[owner][spender] = [has, amt, exp], minter = "" when minting is disabled.
   TokHandle(c, w, sender, msg) is the contract's `execute`: new world + messages.          *)
EXTENDS Queries, Ledger

NoAllow == [has |-> FALSE, amt |-> 0, exp |-> Never]
NoneExp == [k |-> "none", v |-> 0]
IsExpired(exp, w) == CASE exp.k = "height" -> w.height >= exp.v
                       [] exp.k = "time"   -> w.now >= exp.v
                       [] OTHER            -> FALSE

EmptyToken(hub, marketing) ==
  [hub |-> hub, minter |-> hub, supply |-> 0, bal |-> [a \in Accts |-> 0], other |-> 0,
   allow |-> [o \in Accts |-> [sp \in Accts |-> NoAllow]], marketing |-> marketing]

\* the ledger operations are those of Ledger.tla (proved conservative for unbounded amounts by Apalache, Ledger_apa.tla)
Bal(t, a) == LBal(t, a)                 \* accounts outside Accts are only ever credited
Credit(t, a, x) == LCredit(t, a, x)
Debit(t, a, x)  == LDebit(t, a, x)      \* caller has checked a \in Accts /\ bal >= x
AllowOf(t, o, sp) == IF o \in Accts /\ sp \in Accts THEN t.allow[o][sp] ELSE NoAllow
SumBalances(t) == SumFn(t.bal, Accts) + t.other

\* instantiate with initial balances (a sequence of [a, x]); both variants reject repeated addresses
RECURSIVE ApplyInitial(_, _, _)
ApplyInitial(t, init, i) ==
  IF i > Len(init) THEN t
  ELSE ApplyInitial([t EXCEPT !.bal[init[i].a] = init[i].x, !.supply = @ + init[i].x], init, i + 1)
HasDuplicates(init) == \E i, j \in 1..Len(init) : i < j /\ init[i].a = init[j].a
TokInstantiate(c, hub, marketing, init) ==
  IF c = "stsei" /\ marketing = "" THEN [ok |-> FALSE, t |-> EmptyToken(hub, marketing)]
  ELSE IF HasDuplicates(init) THEN [ok |-> FALSE, t |-> EmptyToken(hub, marketing)]
  ELSE [ok |-> TRUE, t |-> ApplyInitial(EmptyToken(hub, marketing), init, 1)]

-----------------------------------------------------------------------------
\* bSei only: basset_sei_token_bsei/src/querier.rs query_reward_contract
BseiRewardAddr(w) ==
  LET hc == QHubConfig(w, w.bsei.hub) IN
  IF ~hc.ok THEN [ok |-> FALSE, v |-> ""]
  ELSE IF hc.c.dispatcher = "" THEN [ok |-> FALSE, v |-> ""]
  ELSE LET dc == QDispConfig(w, hc.c.dispatcher) IN
       IF ~dc.ok THEN [ok |-> FALSE, v |-> ""] ELSE [ok |-> TRUE, v |-> dc.c.reward]

IncMsg(to, a, x) == WasmMsg(to, [k |-> "increase_balance", address |-> a, amount |-> x], <<>>)
DecMsg(to, a, x) == WasmMsg(to, [k |-> "decrease_balance", address |-> a, amount |-> x], <<>>)
CheckSlashingMsg(hub) == WasmMsg(hub, [k |-> "check_slashing"], <<>>)
ReceiveMsg(to, sender, x, hook) == WasmMsg(to, [k |-> "receive", sender |-> sender, amount |-> x, hook |-> hook], <<>>)

\* deduct_allowance: [ok, t]
Deduct(t, w, owner, spender, x) ==
  LET al == AllowOf(t, owner, spender) IN
  IF ~al.has THEN [ok |-> FALSE, t |-> t]
  ELSE IF IsExpired(al.exp, w) THEN [ok |-> FALSE, t |-> t]
  ELSE IF al.amt < x THEN [ok |-> FALSE, t |-> t]
  ELSE [ok |-> TRUE, t |-> LSpend(t, owner, spender, x)]

TokHandle(c, w, sender, msg) ==
  LET t  == w[c]
      bs == c = "bsei"
      rw == IF bs THEN BseiRewardAddr(w) ELSE [ok |-> TRUE, v |-> ""]
      Put(t2, msgs) == HOk([w EXCEPT ![c] = t2], msgs)
  IN
  CASE msg.k = "transfer" ->
         IF ~rw.ok THEN HErr(w, "token: reward contract unknown")
         ELSE IF msg.amount = 0 THEN HErr(w, "token: zero amount")
         ELSE IF Bal(t, sender) < msg.amount THEN HErr(w, "token: insufficient balance")
         ELSE Put(LMove(t, sender, msg.recipient, msg.amount),
                  IF bs THEN <<DecMsg(rw.v, sender, msg.amount), IncMsg(rw.v, msg.recipient, msg.amount)>> ELSE <<>>)
    [] msg.k = "send" ->
         IF ~rw.ok THEN HErr(w, "token: reward contract unknown")
         ELSE IF msg.amount = 0 THEN HErr(w, "token: zero amount")
         ELSE IF Bal(t, sender) < msg.amount THEN HErr(w, "token: insufficient balance")
         ELSE Put(LMove(t, sender, msg.contract, msg.amount),
                  (IF bs THEN <<DecMsg(rw.v, sender, msg.amount), IncMsg(rw.v, msg.contract, msg.amount)>> ELSE <<>>)
                  \o <<ReceiveMsg(msg.contract, sender, msg.amount, msg.hook)>>)
    [] msg.k = "mint" ->
         IF ~rw.ok THEN HErr(w, "token: reward contract unknown")
         ELSE IF msg.amount = 0 THEN HErr(w, "token: zero amount")
         ELSE IF t.minter = "" \/ sender # t.minter THEN HErr(w, "token: unauthorized")
         ELSE Put(LMint(t, msg.recipient, msg.amount),
                  IF bs THEN <<IncMsg(rw.v, msg.recipient, msg.amount)>> ELSE <<>>)
    [] msg.k = "burn" ->
         IF ~rw.ok THEN HErr(w, "token: reward contract unknown")
         ELSE IF sender # t.hub THEN HErr(w, "token: unauthorized")
         ELSE IF msg.amount = 0 THEN HErr(w, "token: zero amount")
         ELSE IF Bal(t, sender) < msg.amount THEN HErr(w, "token: insufficient balance")
         ELSE Put(LBurn(t, sender, msg.amount),
                  IF bs THEN <<DecMsg(rw.v, sender, msg.amount)>> ELSE <<CheckSlashingMsg(t.hub)>>)
    [] msg.k = "increase_allowance" ->
         IF msg.spender = sender THEN HErr(w, "token: cannot set own account")
         ELSE IF ~bs /\ msg.expires.k # "none" /\ IsExpired(msg.expires, w) THEN HErr(w, "token: invalid expiration")
         ELSE IF sender \notin Accts \/ msg.spender \notin Accts THEN HErr(w, "MODEL: allowance outside the account universe")
         ELSE LET al == t.allow[sender][msg.spender] IN
              Put([t EXCEPT !.allow[sender][msg.spender] =
                      [has |-> TRUE, amt |-> al.amt + msg.amount,
                       exp |-> IF msg.expires.k # "none" THEN msg.expires ELSE al.exp]], <<>>)
    [] msg.k = "decrease_allowance" ->
         IF msg.spender = sender THEN HErr(w, "token: cannot set own account")
         ELSE LET al == AllowOf(t, sender, msg.spender) IN
              IF ~al.has THEN HErr(w, "token: no allowance")
              ELSE IF msg.amount < al.amt
                   THEN IF ~bs /\ msg.expires.k # "none" /\ IsExpired(msg.expires, w) THEN HErr(w, "token: invalid expiration")
                        ELSE Put([t EXCEPT !.allow[sender][msg.spender] =
                                    [has |-> TRUE, amt |-> al.amt - msg.amount,
                                     exp |-> IF msg.expires.k # "none" THEN msg.expires ELSE al.exp]], <<>>)
                   ELSE Put([t EXCEPT !.allow[sender][msg.spender] = NoAllow], <<>>)
    [] msg.k = "transfer_from" ->
         IF ~rw.ok THEN HErr(w, "token: reward contract unknown")
         ELSE LET dd == Deduct(t, w, msg.owner, sender, msg.amount) IN
              IF ~dd.ok THEN HErr(w, "token: allowance")
              ELSE IF Bal(t, msg.owner) < msg.amount THEN HErr(w, "token: insufficient balance")
              ELSE Put(LMove(dd.t, msg.owner, msg.recipient, msg.amount),
                       IF bs THEN <<DecMsg(rw.v, msg.owner, msg.amount), IncMsg(rw.v, msg.recipient, msg.amount)>> ELSE <<>>)
    [] msg.k = "burn_from" ->
         IF ~rw.ok THEN HErr(w, "token: reward contract unknown")
         ELSE LET dd == Deduct(t, w, msg.owner, sender, msg.amount) IN
              IF ~dd.ok THEN HErr(w, "token: allowance")
              ELSE IF Bal(t, msg.owner) < msg.amount THEN HErr(w, "token: insufficient balance")
              ELSE Put(LBurn(dd.t, msg.owner, msg.amount),
                       IF bs THEN <<DecMsg(rw.v, msg.owner, msg.amount), CheckSlashingMsg(t.hub)>>
                             ELSE <<CheckSlashingMsg(t.hub)>>)
    [] msg.k = "send_from" ->
         IF ~rw.ok THEN HErr(w, "token: reward contract unknown")
         ELSE LET dd == Deduct(t, w, msg.owner, sender, msg.amount) IN
              IF ~dd.ok THEN HErr(w, "token: allowance")
              ELSE IF Bal(t, msg.owner) < msg.amount THEN HErr(w, "token: insufficient balance")
              ELSE Put(LMove(dd.t, msg.owner, msg.contract, msg.amount),
                       (IF bs THEN <<DecMsg(rw.v, msg.owner, msg.amount), IncMsg(rw.v, msg.contract, msg.amount)>> ELSE <<>>)
                       \o <<ReceiveMsg(msg.contract, sender, msg.amount, msg.hook)>>)
    [] msg.k = "update_minter" /\ ~bs ->
         IF t.minter = "" \/ sender # t.minter THEN HErr(w, "token: unauthorized")
         ELSE Put([t EXCEPT !.minter = msg.new_minter], <<>>)
    [] msg.k = "update_marketing" /\ ~bs ->
         IF t.marketing = "" \/ sender # t.marketing THEN HErr(w, "token: unauthorized")
         ELSE Put([t EXCEPT !.marketing = IF msg.marketing = "-" THEN @ ELSE msg.marketing], <<>>)   \* "-" = field omitted, "" = clear
    [] msg.k = "upload_logo" /\ ~bs ->
         IF t.marketing = "" \/ sender # t.marketing THEN HErr(w, "token: unauthorized")
         ELSE Put(t, <<>>)
    [] OTHER -> HErr(w, "token: unknown message")
=============================================================================
