----------------------------- MODULE MC_Registry -----------------------------
(* C12, function level: calculate_delegations / calculate_undelegations over a grid of validator
   lists and amounts.  The state is one case; in trace mode the case and the REAL functions'
   results come from the harness (IOEnv.TRACE), are compared with the transcription in
   Distrib.tla (conformance) and the post-conditions are evaluated on the implementation's
   results.                                                                                  *)
EXTENDS Distrib, TLC, Json, IOUtils, TLCExt

CONSTANTS MaxLen, MaxStake, MaxExtra
VARIABLES c        \* [d, amt, dl, ud]: the case and the results under judgement

CeilDiv(a, b) == (a + b - 1) \div b
Case(d, amt) ==
  LET dl == CalcDelegations(amt, d)  ud == CalcUndelegations(amt, d)
  IN [d |-> d, amt |-> amt, dl |-> [ok |-> dl.ok, rem |-> dl.rem, plan |-> dl.plan], ud |-> [ok |-> ud.ok, plan |-> ud.plan, fuel |-> ud.passes < UndelegFuel]]

Lists == UNION {[1..n -> 0..MaxStake] : n \in 0..MaxLen}
GridInit == \E d \in Lists, amt \in 0..(MaxLen * MaxStake + MaxExtra) : c = Case(d, amt)
GridNext == UNCHANGED c

\* ---- C12 post-conditions, on whatever results `c` carries
C12_Delegation ==
  LET d == c.d  n == Len(c.d)  T == SumSeq(c.d) + c.amt  r == c.dl IN
  IF n = 0 THEN ~r.ok
  ELSE /\ r.ok /\ r.rem = 0 /\ Len(r.plan) = n /\ SumSeq(r.plan) = c.amt              \* the whole amount, nothing left over
       /\ \A i \in 1..n : /\ r.plan[i] >= 0
                          /\ (d[i] >= CeilDiv(T, n) => r.plan[i] = 0)                \* nothing to a validator at or above the even share
                          /\ (r.plan[i] > 0 => d[i] + r.plan[i] <= CeilDiv(T, n))     \* lifts none above the even share rounded up
C12_Undelegation ==
  LET d == c.d  n == Len(c.d)  r == c.ud IN
  IF n = 0 \/ c.amt > SumSeq(d) THEN ~r.ok                                            \* fails only then
  ELSE LET T == SumSeq(d) - c.amt IN
       /\ r.ok /\ r.fuel /\ Len(r.plan) = n /\ SumSeq(r.plan) = c.amt                 \* exactly the request; terminates
       /\ \A i \in 1..n : /\ 0 <= r.plan[i] /\ r.plan[i] <= d[i]                       \* never more than it holds
                          /\ d[i] - r.plan[i] >= Min(d[i], T \div n)                   \* pushes none below the even share rounded down
Inv_C12 == C12_Delegation /\ C12_Undelegation
EmitCase == PrintT(<<"CASE", ToJson([d |-> c.d, amt |-> c.amt])>>)

=============================================================================
