------------------------------- MODULE PropsB -------------------------------
(* Properties C10, C11, C13 - C20 (C12 is function-level: MC_Registry.tla).  Same conventions as
   Props.tla.                                                                                 *)
EXTENDS Props

-----------------------------------------------------------------------------
\* C10 - privileged operations are rejected for every unauthorised sender.
\* Allowed(c, k, w0) is the set of designated principals, written from the statement of C10
\* (DESIGN.md Appendix D) - not from the handlers.  Public messages are not in PrivilegedKinds.
NonEmpty(S) == S \ {""}
RewHubCfg(w0) == IF w0.rew.hub = "hub" THEN w0.hubCfg ELSE [bsei |-> "", dispatcher |-> ""]
Allowed(c, k, w0) ==
  CASE c = "hub" ->
         (CASE k \in {"update_config", "update_params", "set_owner"} -> {w0.hubCfg.owner}
            [] k = "accept_ownership"    -> {w0.hubCfg.nominee}
            [] k = "bond_rewards"        -> NonEmpty({w0.hubCfg.dispatcher})
            [] k = "redelegate_proxy"    -> NonEmpty({w0.hubCfg.registry})
            [] k = "update_global_index" -> NonEmpty({w0.hubCfg.updater, w0.hubCfg.registry})
            [] k = "swap_hook"           -> {"hub"}
            [] k = "claim_airdrop"       -> NonEmpty({w0.hubCfg.airdrop})
            [] k = "receive"             -> NonEmpty({w0.hubCfg.bsei, w0.hubCfg.stsei})
            [] OTHER -> {})
    [] c = "dispatcher" ->
         (CASE k \in {"swap_to_reward_denom", "dispatch_rewards"} -> {w0.disp.hub}
            [] k \in {"update_config", "update_swap_contract", "update_swap_denom", "update_oracle_contract", "set_owner"} -> {w0.disp.owner}
            [] k = "accept_ownership" -> {w0.disp.nominee}
            [] OTHER -> {})
    [] c = "reward" ->
         (CASE k \in {"increase_balance", "decrease_balance"} -> NonEmpty({RewHubCfg(w0).bsei})
            [] k \in {"update_global_index", "swap_to_reward_denom"} -> NonEmpty({RewHubCfg(w0).dispatcher})
            [] k \in {"update_config", "update_swap_denom", "set_owner"} -> {w0.rew.owner}
            [] k = "accept_ownership" -> {w0.rew.nominee}
            [] OTHER -> {})
    [] c = "registry" ->
         (CASE k = "add_validator" -> {w0.reg.owner, w0.reg.hub}
            [] k \in {"remove_validator", "update_config", "set_owner"} -> {w0.reg.owner}
            [] k = "accept_ownership" -> {w0.reg.nominee}
            [] OTHER -> {})
    [] c \in {"bsei", "stsei"} ->
         (CASE k = "mint" -> NonEmpty({w0[c].minter})
            [] k = "burn" -> {w0[c].hub}
            [] k = "update_minter" -> NonEmpty({w0[c].minter})
            [] k \in {"update_marketing", "upload_logo"} -> NonEmpty({w0[c].marketing})
            [] OTHER -> {})
    [] OTHER -> {}
PrivilegedKinds(c) ==
  CASE c = "hub" -> {"update_config", "update_params", "set_owner", "accept_ownership", "bond_rewards", "redelegate_proxy",
                     "update_global_index", "swap_hook", "claim_airdrop", "receive"}
    [] c = "dispatcher" -> {"swap_to_reward_denom", "dispatch_rewards", "update_config", "update_swap_contract", "update_swap_denom",
                            "update_oracle_contract", "set_owner", "accept_ownership"}
    [] c = "reward" -> {"increase_balance", "decrease_balance", "update_global_index", "swap_to_reward_denom", "update_config",
                        "update_swap_denom", "set_owner", "accept_ownership"}
    [] c = "registry" -> {"add_validator", "remove_validator", "update_config", "set_owner", "accept_ownership"}
    [] c = "bsei" -> {"mint", "burn"}
    [] c = "stsei" -> {"mint", "burn", "update_minter", "update_marketing", "upload_logo"}
    [] OTHER -> {}
C10_Step(w1, e, w2) ==
  (e.tx.k # "instantiate") =>
  /\ (e.ok /\ IsExecEv(e) /\ TopTx(e).msg.k \in PrivilegedKinds(TopTx(e).c))
        => TopTx(e).sender \in Allowed(TopTx(e).c, TopTx(e).msg.k, w1)
  /\ e.ok => \A i \in 1..Len(e.fx) :
        (e.fx[i].t = "wasm" /\ e.fx[i].k \in PrivilegedKinds(e.fx[i].to)) => e.fx[i].from \in Allowed(e.fx[i].to, e.fx[i].k, w1)
  /\ (~e.ok \/ IsProbe(e)) => w2 = w1                                   \* a rejected call changes nothing
  /\ (w1.hubCfg.bsei # "" => w2.hubCfg.bsei = w1.hubCfg.bsei)           \* token addresses are set once
  /\ (w1.hubCfg.stsei # "" => w2.hubCfg.stsei = w1.hubCfg.stsei)
  \* ownership moves only by the two-step hand-over
  /\ (w2.hubCfg.owner # w1.hubCfg.owner => Committed(e, "hub", "accept_ownership") /\ w2.hubCfg.owner = w1.hubCfg.nominee)
  /\ (w2.disp.owner # w1.disp.owner => Committed(e, "dispatcher", "accept_ownership") /\ w2.disp.owner = w1.disp.nominee)
  /\ (w2.rew.owner # w1.rew.owner => Committed(e, "reward", "accept_ownership") /\ w2.rew.owner = w1.rew.nominee)
  /\ (w2.reg.owner # w1.reg.owner => Committed(e, "registry", "accept_ownership") /\ w2.reg.owner = w1.reg.nominee)
  /\ (w2.hubCfg.nominee # w1.hubCfg.nominee => Committed(e, "hub", "set_owner") /\ e.tx.sender = w1.hubCfg.owner)
  /\ (w2.disp.nominee # w1.disp.nominee => Committed(e, "dispatcher", "set_owner") /\ e.tx.sender = w1.disp.owner)
  /\ (w2.rew.nominee # w1.rew.nominee => Committed(e, "reward", "set_owner") /\ e.tx.sender = w1.rew.owner)
  /\ (w2.reg.nominee # w1.reg.nominee => Committed(e, "registry", "set_owner") /\ e.tx.sender = w1.reg.owner)

-----------------------------------------------------------------------------
\* C11 - pause blocks every state-changing path except the owner's unpause (and the migration)
PauseExempt(c, k) == c = "hub" /\ k \in {"update_params", "migrate_unbond_wait_list"}
C11_Step(w1, e, w2, o2) ==
  /\ (w1.hubPar.paused /\ e.ok /\ IsExecEv(e)) =>
        /\ (TopTx(e).c = "hub" => PauseExempt("hub", TopTx(e).msg.k))
        /\ \A i \in 1..Len(e.fx) : (e.fx[i].t = "wasm" /\ e.fx[i].to = "hub") => PauseExempt("hub", e.fx[i].k)
        /\ (ExecIs(e, "hub", "update_params") => TopTx(e).sender = w1.hubCfg.owner)
  /\ (w1.hubPar.paused /\ IsExecEv(e) /\ TopTx(e).c = "hub" /\ ~PauseExempt("hub", TopTx(e).msg.k)) => (~e.ok /\ w2 = w1)
  /\ (Len(w1.legacy) > 0 /\ Committed(e, "hub", "update_params")) => w2.hubPar.paused          \* cannot unpause over legacy entries
  /\ (Len(w2.legacy) > 0 /\ ~(e.tx.k = "set_legacy")) => w2.hubPar.paused \/ ~w1.hubPar.paused
  /\ Committed(e, "hub", "update_params") => w2 = [w1 EXCEPT !.hubPar = w2.hubPar]               \* pausing alters nothing else
  /\ Committed(e, "hub", "update_params") =>                                                     \* ... and no parameter the message omits
        LET m == e.tx.msg p1 == w1.hubPar p2 == w2.hubPar IN
        /\ (m.epoch = NoneInt => p2.epoch = p1.epoch) /\ (m.unbonding = NoneInt => p2.unbonding = p1.unbonding)
        /\ (m.fee = NoneDec => p2.fee = p1.fee) /\ (m.thr = NoneDec => p2.thr = p1.thr) /\ (m.rdenom = "" => p2.rdenom = p1.rdenom)
        /\ p2.denom = p1.denom
  /\ Committed(e, "hub", "migrate_unbond_wait_list") =>
        /\ w1.hubPar.paused
        /\ w2 = [w1 EXCEPT !.wait = w2.wait, !.legacy = w2.legacy, !.hubPar.paused = w2.hubPar.paused]
        /\ (Len(w2.legacy) > 0 => w2.hubPar.paused)       \* (whether the last migration step also unpauses is the implementation's choice)
  /\ o2.qok                                                                                      \* queries keep working

-----------------------------------------------------------------------------
\* C13 - removing a validator moves its whole stake to the remaining ones
C13_Step(w1, e, w2, o1, o2) ==
  Committed(e, "registry", "remove_validator") =>
    LET v == e.tx.msg.address
        rs == FxOfKind(e, "redelegate")
    IN /\ e.tx.sender = w1.reg.owner
       /\ v \notin w2.reg.vals /\ w2.reg.vals # {} /\ w2.reg.vals = w1.reg.vals \ {v}
       /\ \A i \in 1..Len(rs) : rs[i].src = v /\ rs[i].dst \in w2.reg.vals /\ rs[i].from = "hub"
       /\ (w1.reg.hub = "hub" /\ v \in Vals /\ w1.canRedel[v]) =>
             /\ w2.deleg[v] = 0
             /\ SumAmt(rs) = w1.deleg[v]
             /\ TotalDeleg(w2) - Books(o2.rep) = TotalDeleg(w1) - Books(o1.rep)
       \* redelegation blocked: the stake stays where it is (anything else that moves is re-bonded rewards, booked as such)
       /\ (w1.reg.hub = "hub" /\ v \in Vals /\ ~w1.canRedel[v]) =>
             /\ w2.deleg[v] = w1.deleg[v]
             /\ TotalDeleg(w2) - Books(o2.rep) = TotalDeleg(w1) - Books(o1.rep)

-----------------------------------------------------------------------------
\* C14 - reward pool solvent and complete
RECURSIVE DecSumFn(_, _)
DecSumFn(f, S) == IF S = {} THEN Zero ELSE LET x == CHOOSE y \in S : TRUE IN DecAdd(f[x], DecSumFn(f, S \ {x}))
AccruedOf(w0, a) == Accrued(w0.rew.holders[a], w0.rew.gidx)
AccSum(w0) == DecSumFn([a \in Accts |-> AccruedOf(w0, a)], Accts)
IndexSane(w0) == \A a \in Accts : DecLe(w0.rew.holders[a].idx, w0.rew.gidx)
C14_Solvent(w0, g0) ==
  /\ IndexSane(w0)
  /\ DecLe(AccSum(w0), DecOfInt(w0.rew.prevBal))
  /\ w0.rew.prevBal <= BankBal(w0, "reward", w0.rew.rdenom)
  /\ DecLe(DecSub(DecOfInt(w0.rew.prevBal), AccSum(w0)), DecOfInt(g0.updates * Cardinality(Accts)))
  /\ g0.claimed <= g0.delivered
\* the AccruedRewards query reports the whole-unit part of what a claim would pay
C14_AccruedQuery(w0, o) == IndexSane(w0) => \A a \in Accts : o.accrued[a] = DecFloor(AccruedOf(w0, a))
C14_Claim(w1, e, w2) ==
  ExecIs(e, "reward", "claim_rewards") =>
    LET u == TopTx(e).sender
        all == IF u \in Accts THEN AccruedOf(w1, u) ELSE Zero
        to == IF TopTx(e).msg.recipient = "" THEN u ELSE TopTx(e).msg.recipient
        sends == FxOfKind(e, "bank")
    IN /\ (DecFloor(all) >= 1 => e.ok)
       \* (a claim of less than one unit pays nothing - whether it is refused, as the code does, or accepted as a no-op)
       /\ (e.ok /\ DecFloor(all) = 0) => Len(sends) = 0
       /\ (e.ok /\ DecFloor(all) >= 1) => /\ Len(sends) = 1 /\ sends[1].from = "reward" /\ sends[1].to = to
                                           /\ sends[1].a = DecFloor(all) /\ sends[1].d = w1.rew.rdenom
       /\ (e.ok /\ ~IsProbe(e)) => /\ AccruedOf(w2, u) = DecFrac(all)
                                   /\ w2.rew.prevBal = w1.rew.prevBal - DecFloor(all)
                                   /\ \A a \in Accts \ {u} : w2.rew.holders[a] = w1.rew.holders[a]

-----------------------------------------------------------------------------
\* C15 - accrual proportional to holdings, independent of others
UlpBound(k) == <<0, k \div E9, k % E9>>
Earned(w0, g0, a) == DecAdd(DecOfInt(g0.got[a]), AccruedOf(w0, a))
C15_Proportional(w0, g0) ==
  IndexSane(w0) =>
  \A a \in Accts :
    /\ DecLe(Earned(w0, g0, a), g0.ideal[a])
    /\ DecLe(DecSub(g0.ideal[a], Earned(w0, g0, a)), UlpBound(g0.updates * (g0.maxSupply + 1)))
\* without an index update a holder's accrued reward changes only by its own claim
C15_Step(w1, e, w2) ==
  (w2.rew.gidx = w1.rew.gidx /\ IndexSane(w1) /\ IndexSane(w2)) =>
    \A a \in Accts :
      (AccruedOf(w2, a) # AccruedOf(w1, a)) => Committed(e, "reward", "claim_rewards") /\ e.tx.sender = a

-----------------------------------------------------------------------------
\* C16 - reward balances mirror bSei balances
C16_Mirror(w0) ==
  /\ \A a \in Accts : w0.rew.holders[a].bal = w0.bsei.bal[a]
  /\ w0.rew.total = w0.bsei.supply
  /\ w0.rew.other = w0.bsei.other

-----------------------------------------------------------------------------
\* C17 - dispatcher splits by bonded stake, bounded fee, keeps nothing
\* K1 (known finding): zero-amount transfers are emitted and the bank rejects them
K1Failure(e) == "K1" \in Known /\ ~e.ok /\ e.err = "bank: zero amount"
DispHeld(w0, d) == BankBal(w0, "dispatcher", d)
C17_Swap(w1, e, w2) ==
  (ExecIs(e, "dispatcher", "swap_to_reward_denom") /\ TopTx(e).sender = w1.disp.hub
     /\ w1.ext.swap = "ok" /\ w1.ext.oracle = "ok" /\ w1.disp.swap = "swap" /\ w1.disp.oracle = "oracle"
     /\ w1.disp.stDenom = "usei" /\ w1.disp.bDenom = "kusd"
     /\ SeqContains(w1.disp.swapDenoms, "usei") /\ SeqContains(w1.disp.swapDenoms, "kusd") /\ SeqContains(w1.disp.swapDenoms, "ufor")
     /\ TopTx(e).msg.stsei_total_bonded + TopTx(e).msg.bsei_total_bonded > 0)
  => /\ e.ok                                                        \* never offers more than it holds
     /\ ~IsProbe(e) =>
          LET inv   == DecInv(w1.ext.price)
              total == DispHeld(w1, "usei") + MulDec(DispHeld(w1, "kusd") + DispHeld(w1, "ufor"), inv)
              share == MulDivFloor(total, TopTx(e).msg.stsei_total_bonded, TopTx(e).msg.stsei_total_bonded + TopTx(e).msg.bsei_total_bonded)
              x     == DispHeld(w2, "usei")
          IN /\ x <= share /\ share - x <= DecFloor(inv) + 2
             /\ DispHeld(w2, "ufor") = 0
C17_Dispatch(w1, e, w2) ==
  (ExecIs(e, "dispatcher", "dispatch_rewards") /\ TopTx(e).sender = w1.disp.hub /\ w1.disp.hub = "hub"
     /\ w1.disp.reward = "reward" /\ w1.disp.keeper = "keeper" /\ w1.disp.stDenom = "usei" /\ w1.disp.bDenom = "kusd"
     /\ ~w1.hubPar.paused /\ w1.reg.vals # {} /\ w1.hubCfg.dispatcher = "dispatcher" /\ w1.rew.hub = "hub")
  => /\ e.ok \/ K1Failure(e)
     /\ (e.ok /\ ~IsProbe(e)) =>
          LET hs == DispHeld(w1, "usei")  hb == DispHeld(w1, "kusd")
              ks == MulDec(hs, w1.disp.rate)  kb == MulDec(hb, w1.disp.rate)
              \* staking rewards that the chain pays out while the re-bonded coins are delegated arrive after the
              \* dispatcher has read its balances; they are not part of what it held
              arrived(d) == IF w1.wdAddr = "dispatcher" THEN SumFn([v \in Vals |-> w1.pend[v][d] - w2.pend[v][d]], Vals) ELSE 0
          IN /\ DispHeld(w2, "usei") = arrived("usei") /\ DispHeld(w2, "kusd") = arrived("kusd")
             /\ BankBal(w2, "keeper", "usei") = BankBal(w1, "keeper", "usei") + ks
             /\ BankBal(w2, "keeper", "kusd") = BankBal(w1, "keeper", "kusd") + kb
             /\ BankBal(w2, "reward", "kusd") = BankBal(w1, "reward", "kusd") + (hb - kb)
             /\ TotalDeleg(w2) = TotalDeleg(w1) + (hs - ks)
             /\ HubCoins(w2) = HubCoins(w1)
             /\ \A i \in 1..Len(e.fx) : e.fx[i].t = "bank" => e.fx[i].a > 0
C17_KeeperRate(w0) == DecLe(w0.disp.rate, One)
C17_Step(w1, e, w2) == C17_Swap(w1, e, w2) /\ C17_Dispatch(w1, e, w2)

-----------------------------------------------------------------------------
\* C18 - both tokens conserve supply; only the hub mints and burns
C18_Conserved(w0) == SumBalances(w0.bsei) = w0.bsei.supply /\ SumBalances(w0.stsei) = w0.stsei.supply
LiveAllowance(al, w0) == IF al.has /\ ~IsExpired(al.exp, w0) THEN al.amt ELSE 0
TokStep(w1, e, w2, c) ==
  LET t1 == w1[c]  t2 == w2[c]  m == TopTx(e).msg  sp == TopTx(e).sender IN
  /\ Committed(e, c, "transfer") =>
        /\ t2.supply = t1.supply /\ t1.bal[sp] >= m.amount
        /\ (m.recipient # sp => t2.bal[sp] = t1.bal[sp] - m.amount)
        /\ (m.recipient \in Accts \ {sp} => t2.bal[m.recipient] = t1.bal[m.recipient] + m.amount)
        /\ \A a \in Accts \ {sp, m.recipient} : t2.bal[a] = t1.bal[a]
  /\ Committed(e, c, "send") => t1.bal[sp] >= m.amount /\ t2.supply <= t1.supply
  /\ (Committed(e, c, "transfer_from") \/ Committed(e, c, "send_from") \/ Committed(e, c, "burn_from")) =>
        LET al == t1.allow[m.owner][sp] IN
        /\ al.has /\ ~IsExpired(al.exp, w1) /\ m.amount <= al.amt
        /\ t2.allow[m.owner][sp].amt <= al.amt - m.amount                   \* what was used is gone from the allowance
        /\ t1.bal[m.owner] >= m.amount
        /\ (m.k = "burn_from" => t2.supply = t1.supply - m.amount /\ t2.bal[m.owner] = t1.bal[m.owner] - m.amount)
        /\ (m.k = "transfer_from" => t2.supply = t1.supply)
        /\ (m.k = "send_from" => t2.supply <= t1.supply)
  \* supply moves only by the hub's mint / burn or an allowance burn; every stSei burn and every bSei allowance burn
  \* refreshes the hub's rates in the same transaction
  /\ (t2.supply > t1.supply /\ ~IsProbe(e)) => e.ok /\ (ExecIs(e, c, "mint") \/ FxWasm(e, "hub", c, "mint")) /\ t1.minter = "hub"
  /\ (ExecIs(e, c, "mint") /\ e.ok) => sp = t1.minter /\ t1.minter # ""
  /\ (ExecIs(e, c, "burn") /\ e.ok) => sp = t1.hub /\ (~IsProbe(e) => t2.bal[sp] = t1.bal[sp] - m.amount)
  /\ (t2.supply < t1.supply /\ ~IsProbe(e)) =>
        /\ e.ok /\ (ExecIs(e, c, "burn") \/ ExecIs(e, c, "burn_from") \/ FxWasm(e, "hub", c, "burn"))
        /\ (c = "stsei" \/ ExecIs(e, c, "burn_from")) => FxWasm(e, c, "hub", "check_slashing")
  \* what a spender can use after a top-up / reduction is bounded by what the owner granted and that has not lapsed: the
  \* previous allowance counts unless it had lapsed and the owner names no new expiration (a lapsed allowance is not revived
  \* by a top-up that is silent about time).  An inequality: an implementation may grant less, e.g. drop a lapsed remainder.
  /\ (Committed(e, c, "increase_allowance") /\ sp \in Accts /\ m.spender \in Accts) =>
        LET old == t1.allow[sp][m.spender]
            carried == IF old.has /\ (~IsExpired(old.exp, w1) \/ m.expires.k # "none") THEN old.amt ELSE 0
        IN /\ LiveAllowance(t2.allow[sp][m.spender], w2) <= carried + m.amount
           /\ (m.expires.k # "none" /\ t2.allow[sp][m.spender].has) => t2.allow[sp][m.spender].exp = m.expires   \* the owner's time limit is part of the grant
  /\ (Committed(e, c, "decrease_allowance") /\ sp \in Accts /\ m.spender \in Accts) =>
        LET old == t1.allow[sp][m.spender]
            carried == IF old.has /\ (~IsExpired(old.exp, w1) \/ m.expires.k # "none") THEN old.amt ELSE 0
        IN /\ LiveAllowance(t2.allow[sp][m.spender], w2) <= Max(carried - m.amount, 0)
           /\ (m.expires.k # "none" /\ t2.allow[sp][m.spender].has) => t2.allow[sp][m.spender].exp = m.expires
  /\ \A o \in Accts, s \in Accts :                                  \* allowances change only by their owner or by use
        (t2.allow[o][s] # t1.allow[o][s] /\ ~IsProbe(e)) =>
            e.ok /\ IsExecEv(e) /\ TopTx(e).c = c
            /\ \/ (m.k \in {"increase_allowance", "decrease_allowance"} /\ sp = o /\ m.spender = s)
               \/ (m.k \in {"transfer_from", "send_from", "burn_from"} /\ sp = s /\ m.owner = o)
C18_Step(w1, e, w2) == (e.tx.k # "instantiate_token") => (TokStep(w1, e, w2, "bsei") /\ TokStep(w1, e, w2, "stsei"))

-----------------------------------------------------------------------------
\* C19 - a global index update delivers all staking rewards to the right parties
UGIDone(e) == e.ok /\ ~IsProbe(e) /\ (ExecIs(e, "hub", "update_global_index") \/ FxWasm(e, "registry", "hub", "update_global_index"))
C19_Delivers(w1, e, w2, o1, o2) ==
  (UGIDone(e) /\ w1.hubCfg.dispatcher = "dispatcher" /\ w1.disp.hub = "hub" /\ w1.disp.reward = "reward" /\ w1.rew.hub = "hub"
     /\ w1.wdAddr = "dispatcher" /\ w1.disp.stDenom = "usei" /\ w1.disp.bDenom = "kusd" /\ w1.rew.rdenom = "kusd") =>
    LET rebond == SumAmt(FxOfKind(e, "delegate"))
        folded == BankBal(w2, "reward", "kusd") - w1.rew.prevBal
    IN /\ \A v \in Vals : (w1.deleg[v] > 0 \/ w2.deleg[v] > 0) => w2.pend[v] = ZeroCoins
       /\ \A d \in Denoms : SeqContains(w1.disp.swapDenoms, d) => DispHeld(w2, d) = 0
       /\ w2.bsei = w1.bsei /\ w2.stsei = w1.stsei
       /\ HubCoins(w2) = HubCoins(w1)
       /\ w2.wait = w1.wait /\ w2.hist = w1.hist /\ w2.batch = w1.batch /\ w2.hub.prevBal = w1.hub.prevBal
       /\ o2.rep.bondSt = o1.rep.bondSt + rebond /\ o2.rep.bondB = o1.rep.bondB
       /\ (Staked(w1) => o2.rep.rateB = o1.rep.rateB)
       /\ TotalDeleg(w2) = TotalDeleg(w1) + rebond
       /\ (w1.rew.total > 0 /\ IndexSane(w1) /\ folded >= 0) =>
             /\ w2.rew.prevBal = BankBal(w2, "reward", "kusd")
             /\ DecLe(DecSub(AccSum(w2), AccSum(w1)), DecOfInt(folded))
             /\ DecLt(DecSub(DecOfInt(folded), DecSub(AccSum(w2), AccSum(w1))), One)
       \* ... measured without the reward contract's own record: at least what reached the contract in this transaction is credited
       /\ (w1.rew.total > 0 /\ IndexSane(w1)) =>
             DecLt(DecOfInt(BankBal(w2, "reward", "kusd") - BankBal(w1, "reward", "kusd")), DecAdd(DecSub(AccSum(w2), AccSum(w1)), One))
C19_Executes(w1, e) ==
  (ExecIs(e, "hub", "update_global_index") /\ TopTx(e).sender \in NonEmpty({w1.hubCfg.updater}) /\ TopTx(e).msg.hooks = 0
     /\ ~w1.hubPar.paused /\ Books(w1.hub) > 0 /\ TotalDeleg(w1) > 0 /\ w1.reg.vals # {}
     /\ w1.ext.swap = "ok" /\ w1.ext.oracle = "ok"
     /\ w1.hubCfg.dispatcher = "dispatcher" /\ w1.hubCfg.registry = "registry" /\ w1.hubCfg.bsei = "bsei" /\ w1.hubCfg.stsei = "stsei"
     /\ w1.disp.hub = "hub" /\ w1.disp.reward = "reward" /\ w1.disp.swap = "swap" /\ w1.disp.oracle = "oracle"
     /\ w1.disp.stDenom = "usei" /\ w1.disp.bDenom = "kusd" /\ w1.rew.hub = "hub" /\ w1.rew.rdenom = "kusd" /\ w1.reg.hub = "hub"
     /\ SeqContains(w1.disp.swapDenoms, "usei") /\ SeqContains(w1.disp.swapDenoms, "kusd"))
  => e.ok \/ K1Failure(e)
C19_Step(w1, e, w2, o1, o2) == C19_Delivers(w1, e, w2, o1, o2) /\ C19_Executes(w1, e)

-----------------------------------------------------------------------------
\* C20 - stored parameters stay within their valid ranges under any update sequence
C20_InRange(w0) == DecLe(w0.hubPar.fee, One) /\ DecLe(w0.hubPar.thr, One) /\ DecLe(w0.disp.rate, One)
Keep(omitted, new, old) == omitted => new = old
\* (whether an out-of-range value is refused or clamped is the implementation's choice: the statement is about what is STORED -
\* C20_InRange on every state, reached through committed updates with out-of-range values in every driver)
C20_Step(w1, e, w2) ==
  /\ ~(e.tx.k = "instantiate") => (w2.hubPar.denom = w1.hubPar.denom /\ w2.disp.stDenom = w1.disp.stDenom)
  /\ (~e.ok \/ IsProbe(e)) => w2 = w1
  /\ Committed(e, "hub", "update_params") =>
        LET m == e.tx.msg p1 == w1.hubPar p2 == w2.hubPar IN
        \* (what a field that IS given becomes - taken over, capped, normalised - is not part of the statement)
        /\ Keep(m.epoch = NoneInt, p2.epoch, p1.epoch)
        /\ Keep(m.unbonding = NoneInt, p2.unbonding, p1.unbonding)
        /\ Keep(m.fee = NoneDec, p2.fee, p1.fee)
        /\ Keep(m.thr = NoneDec, p2.thr, p1.thr)
        /\ Keep(m.rdenom = "", p2.rdenom, p1.rdenom)
        /\ (m.paused = "" => ~p2.paused)
  /\ Committed(e, "hub", "update_config") =>
        LET m == e.tx.msg c1 == w1.hubCfg c2 == w2.hubCfg IN
        /\ Keep(m.dispatcher = "", c2.dispatcher, c1.dispatcher)
        /\ Keep(m.bsei = "", c2.bsei, c1.bsei) /\ Keep(m.stsei = "", c2.stsei, c1.stsei)
        /\ Keep(m.airdrop = "", c2.airdrop, c1.airdrop) /\ Keep(m.registry = "", c2.registry, c1.registry)
        /\ Keep(m.rewards = "", c2.rewards, c1.rewards) /\ Keep(m.updater = "", c2.updater, c1.updater)
        /\ c2.owner = c1.owner /\ c2.nominee = c1.nominee
  /\ Committed(e, "dispatcher", "update_config") =>
        LET m == e.tx.msg c1 == w1.disp c2 == w2.disp IN
        /\ Keep(m.hub_contract = "", c2.hub, c1.hub) /\ Keep(m.bsei_reward_contract = "", c2.reward, c1.reward)
        /\ Keep(m.bsei_reward_denom = "", c2.bDenom, c1.bDenom) /\ Keep(m.krp_keeper_address = "", c2.keeper, c1.keeper)
        /\ Keep(m.krp_keeper_rate = NoneDec, c2.rate, c1.rate)
        /\ c2.swap = c1.swap /\ c2.oracle = c1.oracle /\ c2.swapDenoms = c1.swapDenoms /\ c2.owner = c1.owner
  /\ (Committed(e, "dispatcher", "update_swap_contract") \/ Committed(e, "dispatcher", "update_oracle_contract")
        \/ Committed(e, "dispatcher", "update_swap_denom")) =>
        /\ w2.disp.rate = w1.disp.rate /\ w2.disp.bDenom = w1.disp.bDenom /\ w2.disp.hub = w1.disp.hub
        /\ w2.disp.reward = w1.disp.reward /\ w2.disp.keeper = w1.disp.keeper
  /\ Committed(e, "reward", "update_config") =>
        LET m == e.tx.msg IN
        /\ Keep(m.hub_contract = "", w2.rew.hub, w1.rew.hub) /\ Keep(m.reward_denom = "", w2.rew.rdenom, w1.rew.rdenom)
        /\ Keep(m.swap_contract = "", w2.rew.swap, w1.rew.swap)
  /\ Committed(e, "registry", "update_config") => Keep(e.tx.msg.hub_contract = "", w2.reg.hub, w1.reg.hub)
=============================================================================
