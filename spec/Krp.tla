--------------------------------- MODULE Krp ---------------------------------
(* The composed system: six contracts + chain.  One step = one top-level transaction (atomic:
   the whole message cascade commits or nothing does) or one environment event.
   Transactions are *total outcome functions*: Apply(tx, w) = [ok, err, w, fx]; a failed
   transaction is a step that leaves `w` unchanged (DESIGN.md 2(D)).                          *)
EXTENDS Router

CONSTANTS Epoch, Unbonding, Fee, Thr,      \* hub parameters at instantiation
          KeeperRate, Price,               \* dispatcher keeper rate, oracle price usei -> kusd
          T0,                              \* block time at instantiation (>= Unbonding)
          UserFunds,                       \* usei each user starts with
          InitVals                         \* validators registered at instantiation (subset of Vals)

VARIABLES w,     \* the world (Base.tla)
          g,     \* ghost accumulators, read only by properties
          ev,    \* the last event: [tx, ok, err, fx]
          obs    \* what the public queries answer in this state (derived from w in the model,
                 \* logged from the real queries in implementation traces)

vars == <<w, g, ev, obs>>

-----------------------------------------------------------------------------
\* the system as `setup` wires it (harness/src/lib.rs setup()): all six contracts instantiated by
\* "owner", hub UpdateConfig registering dispatcher (=> withdraw address), registry, tokens, reward
InitWorld ==
  [ now |-> T0, height |-> 1, chainUnbonding |-> Unbonding,
    bank |-> [a \in BankAccts |-> [d \in Denoms |-> IF a \in Users /\ d = "usei" THEN UserFunds ELSE 0]],
    deleg |-> [v \in Vals |-> 0], unbq |-> <<>>, pend |-> [v \in Vals |-> ZeroCoins],
    wdAddr |-> "dispatcher", canRedel |-> [v \in Vals |-> TRUE],
    ext |-> [swap |-> "ok", oracle |-> "ok", price |-> Price],
    hubCfg |-> [owner |-> "owner", nominee |-> "owner", updater |-> "updater", dispatcher |-> "dispatcher",
                registry |-> "registry", bsei |-> "bsei", stsei |-> "stsei", airdrop |-> "", rewards |-> "reward"],
    hubPar |-> [epoch |-> Epoch, unbonding |-> Unbonding, fee |-> Fee, thr |-> DecMin(Thr, One),
                denom |-> "usei", rdenom |-> "kusd", paused |-> FALSE],
    hub |-> [bondB |-> 0, bondSt |-> 0, rateB |-> One, rateSt |-> One, prevBal |-> 0,
             lastUnb |-> T0, lastProc |-> 0, lastIdx |-> T0],
    batch |-> [id |-> 1, reqB |-> 0, reqSt |-> 0],
    hist |-> <<>>,
    wait |-> [u \in Accts |-> [i \in 1..MaxBatch |-> NoWait]],
    legacy |-> <<>>,
    bsei |-> EmptyToken("hub", ""),
    stsei |-> EmptyToken("hub", "owner"),
    rew |-> [owner |-> "owner", nominee |-> "owner", hub |-> "hub", rdenom |-> "kusd", swap |-> "swap",
             swapDenoms |-> <<>>, gidx |-> Zero, total |-> 0, prevBal |-> 0,
             holders |-> [a \in Accts |-> NoHolder], other |-> 0],
    disp |-> [owner |-> "owner", nominee |-> "owner", hub |-> "hub", reward |-> "reward",
              stDenom |-> "usei", bDenom |-> "kusd", keeper |-> "keeper", rate |-> KeeperRate,
              swap |-> "swap", swapDenoms |-> <<"usei", "kusd", "ufor">>, oracle |-> "oracle"],
    reg |-> [owner |-> "owner", nominee |-> "owner", hub |-> "hub", vals |-> InitVals],
    air |-> [hub |-> 0, pair |-> 0, amt |-> 0] ]

-----------------------------------------------------------------------------
\* transactions and environment events
ExecTx(sender, c, msg, funds) == [k |-> "exec", sender |-> sender, c |-> c, msg |-> msg, funds |-> funds]

EnvResult(ok, w1, w2) == [ok |-> ok, err |-> IF ok THEN "" ELSE "env: not enabled", w |-> IF ok THEN w2 ELSE w1, fx |-> <<>>]

Apply(tx, w0) ==
  CASE tx.k = "exec"      -> Tx(w0, tx.sender, tx.c, tx.msg, tx.funds)
    [] tx.k = "advance"   -> EnvResult(tx.dt > 0, w0, EnvAdvance(w0, tx.dt))
    [] tx.k = "slash"     -> EnvResult(EnvSlashBondedOk(w0, tx.v, tx.n), w0, EnvSlashBonded(w0, tx.v, tx.n))
    [] tx.k = "slash_unb" -> EnvResult(EnvSlashUnbondingOk(w0, tx.v, tx.n), w0, EnvSlashUnbonding(w0, tx.v, tx.n))
    [] tx.k = "accrue"    -> EnvResult(EnvAccrueOk(w0, tx.v), w0, EnvAccrue(w0, tx.v, tx.d, tx.a))
    [] tx.k = "donate"    -> LET r == BankMove(Ok(w0), tx.u, "hub", "usei", tx.a) IN EnvResult(r.ok, w0, r.w)
    [] tx.k = "set_ext"   -> EnvResult(TRUE, w0, [w0 EXCEPT !.ext = [swap |-> tx.swap, oracle |-> tx.oracle, price |-> tx.price]])
    [] tx.k = "set_canredel" -> EnvResult(TRUE, w0, [w0 EXCEPT !.canRedel[tx.v] = tx.b])
    [] tx.k = "set_legacy"   -> EnvResult(TRUE, w0, [w0 EXCEPT !.legacy = tx.entries])     \* test set-up only: pre-migration storage
    [] tx.k = "deliver"   -> EnvResult(TRUE, w0, [w0 EXCEPT !.bank["reward"][tx.d] = @ + tx.a])       \* coins sent to the reward contract
    [] tx.k = "set_airdrop" -> EnvResult(TRUE, w0, [w0 EXCEPT !.air.amt = tx.a])                        \* what the next airdrop claim hands out
    [] tx.k = "fund"      -> EnvResult(tx.to \in BankAccts, w0, [w0 EXCEPT !.bank[tx.to][tx.d] = @ + tx.a])   \* unsolicited coins to any account
    [] tx.k = "instantiate_token" ->                                                                \* a fresh token contract at address tx.c
         LET r == TokInstantiate(tx.c, "hub", IF tx.c = "stsei" THEN "owner" ELSE "", tx.init)
         IN EnvResult(r.ok, w0, [w0 EXCEPT ![tx.c] = r.t])
    [] tx.k = "instantiate" ->                                                                      \* a fresh hub / dispatcher instance
         IF tx.c = "hub"
         THEN EnvResult(DecLe(tx.fee, One), w0,
                [w0 EXCEPT !.hubCfg = [owner |-> tx.sender, nominee |-> tx.sender, updater |-> "updater", dispatcher |-> "", registry |-> "",
                                       bsei |-> "", stsei |-> "", airdrop |-> "", rewards |-> ""],
                           !.hubPar = [epoch |-> tx.epoch, unbonding |-> tx.unbonding, fee |-> tx.fee, thr |-> DecMin(tx.thr, One),
                                       denom |-> "usei", rdenom |-> "kusd", paused |-> FALSE],
                           !.hub = [bondB |-> 0, bondSt |-> 0, rateB |-> One, rateSt |-> One, prevBal |-> 0,
                                    lastUnb |-> w0.now, lastProc |-> 0, lastIdx |-> w0.now],
                           !.batch = [id |-> 1, reqB |-> 0, reqSt |-> 0], !.hist = <<>>,
                           !.wait = [u \in Accts |-> [i \in 1..MaxBatch |-> NoWait]], !.legacy = <<>>])
         ELSE EnvResult(DecLe(tx.rate, One), w0,
                [w0 EXCEPT !.disp = [owner |-> tx.sender, nominee |-> tx.sender, hub |-> "hub", reward |-> "reward",
                                     stDenom |-> IF "stdenom" \in DOMAIN tx THEN tx.stdenom ELSE "usei",     \* (instantiate does not validate it)
                                     bDenom |-> "kusd", keeper |-> "keeper", rate |-> tx.rate,
                                     swap |-> "swap", swapDenoms |-> <<"usei", "kusd", "ufor">>, oracle |-> "oracle"]])
    [] tx.k = "probe"     -> LET r == Tx(w0, tx.tx.sender, tx.tx.c, tx.tx.msg, tx.tx.funds)        \* dry run: outcome observed, nothing committed
                             IN [ok |-> r.ok, err |-> r.err, w |-> w0, fx |-> r.fx]

\* user-level sugar
Hook(u, tok, a, hook) == ExecTx(u, tok, [k |-> "send", contract |-> "hub", amount |-> a, hook |-> hook], <<>>)
TxBond(u, a)        == ExecTx(u, "hub", [k |-> "bond"], <<Coin("usei", a)>>)
TxBondSt(u, a)      == ExecTx(u, "hub", [k |-> "bond_for_st_sei"], <<Coin("usei", a)>>)
TxUnbondB(u, a)     == Hook(u, "bsei", a, "unbond")
TxUnbondSt(u, a)    == Hook(u, "stsei", a, "unbond")
TxConvertBSt(u, a)  == Hook(u, "bsei", a, "convert")
TxConvertStB(u, a)  == Hook(u, "stsei", a, "convert")
TxWithdraw(u)       == ExecTx(u, "hub", [k |-> "withdraw_unbonded"], <<>>)
TxCheckSlashing(u)  == ExecTx(u, "hub", [k |-> "check_slashing"], <<>>)
TxTransfer(tok, u, v, a) == ExecTx(u, tok, [k |-> "transfer", recipient |-> v, amount |-> a], <<>>)
TxClaim(u)          == ExecTx(u, "reward", [k |-> "claim_rewards", recipient |-> ""], <<>>)
TxUpdateGlobal      == ExecTx("updater", "hub", [k |-> "update_global_index", hooks |-> 0], <<>>)
TxRemoveValidator(v) == ExecTx("owner", "registry", [k |-> "remove_validator", address |-> v], <<>>)
TxAddValidator(v)   == ExecTx("owner", "registry", [k |-> "add_validator", validator |-> v], <<>>)
TxRedelegations(u, v) == ExecTx(u, "registry", [k |-> "redelegations", address |-> v], <<>>)
TxPause(p)          == ExecTx("owner", "hub", [k |-> "update_params", epoch |-> NoneInt, unbonding |-> NoneInt,
                                                fee |-> NoneDec, thr |-> NoneDec, rdenom |-> "", paused |-> p], <<>>)
EvAdvance(dt)       == [k |-> "advance", dt |-> dt]
EvSlash(v, n)       == [k |-> "slash", v |-> v, n |-> n]
EvSlashUnb(v, n)    == [k |-> "slash_unb", v |-> v, n |-> n]
EvAccrue(v, d, a)   == [k |-> "accrue", v |-> v, d |-> d, a |-> a]
EvDonate(u, a)      == [k |-> "donate", u |-> u, a |-> a]
EvDeliver(d, a)     == [k |-> "deliver", d |-> d, a |-> a]
EvFund(to, d, a)    == [k |-> "fund", to |-> to, d |-> d, a |-> a]
TxIndexUpdate       == ExecTx("dispatcher", "reward", [k |-> "update_global_index"], <<>>)
TxMint(tok, u, a)   == ExecTx("hub", tok, [k |-> "mint", recipient |-> u, amount |-> a], <<>>)

-----------------------------------------------------------------------------
\* ghosts: pure functions of (g, pre-world, event, post-world); never read by Apply
InitGhost ==
  [ paid      |-> [i \in 1..MaxBatch |-> NoWait],   \* tokens of batch i whose claims were paid out
    slashed   |-> {},                               \* batches whose unbonding stake was slashed
    donated   |-> FALSE,                            \* unsolicited coins reached the hub since the last release
    delivered |-> 0, claimed |-> 0,                 \* reward coins that reached / left the reward contract
    folded    |-> 0,                                \* of the delivered coins, those spread over the holders by index updates so far
    updates   |-> 0,                                \* index updates with at least one holder
    ideal     |-> [a \in Accts |-> Zero],           \* exact pro-rata accrual per holder (unfloored per update)
    got       |-> [a \in Accts |-> 0],              \* reward coins claimed per holder
    maxSupply |-> 0,                                \* largest bSei supply seen so far
    steps     |-> 0 ]

FxBankFrom(fx, from, d) ==
  LET idx == {i \in 1..Len(fx) : fx[i].t = "bank" /\ fx[i].from = from /\ fx[i].d = d}
  IN SumFn([i \in idx |-> fx[i].a], idx)
\* the claimant of a successful reward claim (top-level claim_rewards)
IsClaim(tx) == tx.k = "exec" /\ tx.c = "reward" /\ tx.msg.k = "claim_rewards"
IsWithdraw(tx) == tx.k = "exec" /\ tx.c = "hub" /\ tx.msg.k = "withdraw_unbonded"

GhostNext(g0, w1, tx, ok, w2, fx) ==
  LET rd      == w1.rew.rdenom
      out     == IF ok /\ tx.k # "probe" THEN FxBankFrom(fx, "reward", rd) ELSE 0     \* a dry run pays nothing
      released == {i \in 1..Min(Len(w2.hist), MaxBatch) : w2.hist[i].released /\ (i > Len(w1.hist) \/ ~w1.hist[i].released)}
      paidNow(i) == IF ok /\ IsWithdraw(tx) /\ tx.sender \in Accts
                    THEN [b |-> w1.wait[tx.sender][i].b - w2.wait[tx.sender][i].b,
                          st |-> w1.wait[tx.sender][i].st - w2.wait[tx.sender][i].st]
                    ELSE NoWait
      updated == w2.rew.gidx # w1.rew.gidx
      \* coins an index update in this step has to spread: everything that reached the reward contract and was not spread
      \* before - measured from bank movements, bSei balances and the bSei supply, not from the reward contract's own records
      dnow    == g0.delivered + (BankBal(w2, "reward", rd) - BankBal(w1, "reward", rd)) + out
      dclaim  == dnow - g0.folded
      spreads == updated /\ w1.bsei.supply > 0
  IN [ paid      |-> [i \in 1..MaxBatch |-> [b |-> g0.paid[i].b + paidNow(i).b, st |-> g0.paid[i].st + paidNow(i).st]],
       slashed   |-> IF tx.k = "slash_unb" /\ ok
                     THEN g0.slashed \cup {i \in 1..Len(w1.hist) : ~w1.hist[i].released}
                     ELSE g0.slashed,
       donated   |-> IF tx.k = "donate" /\ ok THEN TRUE ELSE IF released # {} THEN FALSE ELSE g0.donated,
       delivered |-> g0.delivered + (BankBal(w2, "reward", rd) - BankBal(w1, "reward", rd)) + out,
       claimed   |-> g0.claimed + out,
       updates   |-> IF updated THEN g0.updates + 1 ELSE g0.updates,
       folded    |-> IF spreads THEN dnow ELSE g0.folded,
       ideal     |-> IF spreads /\ dclaim >= 0
                     THEN [a \in Accts |-> DecAdd(g0.ideal[a], DecFromRatio2(w1.bsei.bal[a], dclaim, w1.bsei.supply))]
                     ELSE g0.ideal,
       got       |-> IF ok /\ IsClaim(tx) /\ tx.sender \in Accts THEN [g0.got EXCEPT ![tx.sender] = @ + out] ELSE g0.got,
       maxSupply |-> Max(g0.maxSupply, w2.bsei.supply),
       steps     |-> g0.steps + 1 ]

-----------------------------------------------------------------------------
\* observations: the hub's State query (recomputed state) and whether all hub queries answer
ObsOf(w0) == [rep |-> Reported(w0), qok |-> TRUE,
              withdrawable |-> [u \in Accts |-> QueryWithdrawable(w0, u)],                       \* hub WithdrawableUnbonded
              accrued |-> [a \in Accts |-> IF DecLe(w0.rew.holders[a].idx, w0.rew.gidx)          \* reward AccruedRewards
                                           THEN DecFloor(Accrued(w0.rew.holders[a], w0.rew.gidx)) ELSE 0]]
\* `same`: the outcome was the same under every mode of the swap / oracle stubs.  In the model the flag is constant (the
\* specification-level statement is C09_ExitsIgnoreStubs); in implementation traces the harness re-executes exit transactions
\* on copies of the chain under every stub mode and logs whether outcome, effects and resulting state agree.
InitEv == [tx |-> [k |-> "init"], ok |-> TRUE, err |-> "", fx |-> <<>>, same |-> TRUE]
Init == w = InitWorld /\ g = InitGhost /\ ev = InitEv /\ obs = ObsOf(InitWorld)

Step(tx) ==
  LET r == Apply(tx, w) IN
  /\ w'  = r.w
  /\ ev' = [tx |-> tx, ok |-> r.ok, err |-> r.err, fx |-> r.fx, same |-> TRUE]
  /\ g'  = GhostNext(g, w, tx, r.ok, r.w, r.fx)
  /\ obs' = ObsOf(r.w)
StepOk(tx) == Apply(tx, w).ok /\ Step(tx)          \* generation of behaviours: successful events only
Probe(tx) == [k |-> "probe", tx |-> tx]
=============================================================================
