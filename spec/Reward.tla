------------------------------- MODULE Reward -------------------------------
(* contracts/basset_sei_reward: global index, holders, claims.
   rew = [owner, nominee, hub, rdenom, swap, swapDenoms, gidx, total, prevBal, holders, other]
   holders[a] = [bal, idx, pend] for a \in Accts; `other` = mirrored balance of outside accounts. *)
EXTENDS Cw20

NoHolder == [bal |-> 0, idx |-> Zero, pend |-> Zero]
HolderOf(r, a) == IF a \in Accts THEN r.holders[a] ELSE NoHolder

\* user.rs calculate_decimal_rewards + pending: (gidx - idx) * bal + pend   (Decimal256, exact)
Accrued(h, g) == DecAdd(DecMulInt(DecSub(g, h.idx), h.bal), h.pend)

\* querier.rs: the principals are read from the hub's Config at every call
RewTokenAddr(w) == LET hc == QHubConfig(w, w.rew.hub) IN
                   IF ~hc.ok THEN [ok |-> FALSE, v |-> ""]
                   ELSE IF hc.c.bsei = "" THEN [ok |-> FALSE, v |-> ""] ELSE [ok |-> TRUE, v |-> hc.c.bsei]
RewDispatcherAddr(w) == LET hc == QHubConfig(w, w.rew.hub) IN
                   IF ~hc.ok THEN [ok |-> FALSE, v |-> ""]
                   ELSE IF hc.c.dispatcher = "" THEN [ok |-> FALSE, v |-> ""] ELSE [ok |-> TRUE, v |-> hc.c.dispatcher]

SwapDenomMsg(to, d, a, target, recv) ==
  WasmMsg(to, [k |-> "swap_denom", from_d |-> d, from_a |-> a, target |-> target, to |-> recv], <<Coin(d, a)>>)

RewHandle(w, sender, msg) ==
  LET r == w.rew
      Put(r2, msgs) == HOk([w EXCEPT !.rew = r2], msgs)
  IN
  CASE msg.k = "increase_balance" ->
         LET ta == RewTokenAddr(w) IN
         IF ~ta.ok THEN HErr(w, "reward: token unknown")
         ELSE IF sender # ta.v THEN HErr(w, "reward: unauthorized")
         ELSE IF msg.address \notin Accts THEN Put([r EXCEPT !.total = @ + msg.amount, !.other = @ + msg.amount], <<>>)
         ELSE LET h == r.holders[msg.address] IN
              IF DecLt(r.gidx, h.idx) THEN HErr(w, "reward: index ahead of global index")
              ELSE Put([r EXCEPT !.holders[msg.address] = [bal |-> h.bal + msg.amount, idx |-> r.gidx, pend |-> Accrued(h, r.gidx)],
                                 !.total = @ + msg.amount], <<>>)
    [] msg.k = "decrease_balance" ->
         LET ta == RewTokenAddr(w) IN
         IF ~ta.ok THEN HErr(w, "reward: token unknown")
         ELSE IF sender # ta.v THEN HErr(w, "reward: unauthorized")
         ELSE LET h == HolderOf(r, msg.address) IN
              IF h.bal < msg.amount THEN HErr(w, "reward: decrease exceeds balance")
              ELSE IF msg.address \notin Accts THEN Put(r, <<>>)      \* amount = 0 on an unknown account
              ELSE IF DecLt(r.gidx, h.idx) THEN HErr(w, "reward: index ahead of global index")
              ELSE IF r.total < msg.amount THEN HErr(w, "reward: total underflow")
              ELSE Put([r EXCEPT !.holders[msg.address] = [bal |-> h.bal - msg.amount, idx |-> r.gidx, pend |-> Accrued(h, r.gidx)],
                                 !.total = @ - msg.amount], <<>>)
    [] msg.k = "update_global_index" ->
         LET da == RewDispatcherAddr(w) IN
         IF ~da.ok THEN HErr(w, "reward: dispatcher unknown")
         ELSE IF sender # da.v THEN HErr(w, "reward: unauthorized")
         ELSE IF r.total = 0 THEN Put(r, <<>>)
         ELSE LET bal == QBalance(w, "reward", r.rdenom) IN
              IF bal < r.prevBal THEN HErr(w, "reward: balance below recorded balance")
              ELSE Put([r EXCEPT !.prevBal = bal, !.gidx = DecAdd(@, DecFromRatio(bal - r.prevBal, r.total))], <<>>)
    [] msg.k = "claim_rewards" ->
         LET h == HolderOf(r, sender) IN
         IF DecLt(r.gidx, h.idx) THEN HErr(w, "reward: index ahead of global index")
         ELSE LET all == Accrued(h, r.gidx)
                  amt == DecFloor(all)
                  to  == IF msg.recipient = "" THEN sender ELSE msg.recipient
              IN IF amt = 0 THEN HErr(w, "reward: nothing accrued")
                 ELSE IF r.prevBal < amt THEN HErr(w, "reward: recorded balance too low")
                 ELSE Put([r EXCEPT !.holders[sender] = [bal |-> h.bal, idx |-> r.gidx, pend |-> DecFrac(all)],
                                    !.prevBal = @ - amt],
                          <<BankMsg(to, r.rdenom, amt)>>)
    [] msg.k = "swap_to_reward_denom" ->
         LET da == RewDispatcherAddr(w) IN
         IF ~da.ok THEN HErr(w, "reward: dispatcher unknown")
         ELSE IF sender # da.v THEN HErr(w, "reward: unauthorized")
         ELSE LET ds == SelectSeq(DenomSeq, LAMBDA d : SeqContains(r.swapDenoms, d) /\ QBalance(w, "reward", d) > 0)
              IN Put(r, [i \in 1..Len(ds) |-> SwapDenomMsg(r.swap, ds[i], QBalance(w, "reward", ds[i]), r.rdenom, "reward")])
    [] msg.k = "update_config" ->
         IF sender # r.owner THEN HErr(w, "reward: unauthorized")
         ELSE Put([r EXCEPT !.hub = IF msg.hub_contract = "" THEN @ ELSE msg.hub_contract,
                            !.rdenom = IF msg.reward_denom = "" THEN @ ELSE msg.reward_denom,
                            !.swap = IF msg.swap_contract = "" THEN @ ELSE msg.swap_contract], <<>>)
    [] msg.k = "update_swap_denom" ->
         IF sender # r.owner THEN HErr(w, "reward: unauthorized")
         ELSE Put([r EXCEPT !.swapDenoms = IF msg.is_add THEN Append(@, msg.swap_denom) ELSE SeqRemoveAll(@, msg.swap_denom)], <<>>)
    [] msg.k = "set_owner" ->
         IF sender # r.owner THEN HErr(w, "reward: unauthorized")
         ELSE Put([r EXCEPT !.nominee = msg.new_owner_addr], <<>>)
    [] msg.k = "accept_ownership" ->
         IF sender # r.nominee THEN HErr(w, "reward: unauthorized")
         ELSE Put([r EXCEPT !.owner = r.nominee], <<>>)
    [] OTHER -> HErr(w, "reward: unknown message")
=============================================================================
