import java.math.BigInteger;
import tlc2.value.impl.*;
public class Dec18 {
  static final BigInteger E9 = BigInteger.valueOf(1000000000L), E18 = E9.multiply(E9);
  static BigInteger n(Value v){ return BigInteger.valueOf(((IntValue)v).val); }
  static BigInteger at(Value d){ Value[] e = ((TupleValue)d.toTuple()).elems;
    return n(e[0]).multiply(E18).add(n(e[1]).multiply(E9)).add(n(e[2])); }
  static Value dec(BigInteger v){ BigInteger[] q = v.divideAndRemainder(E18); BigInteger[] r = q[1].divideAndRemainder(E9);
    return new TupleValue(new Value[]{ IntValue.gen(q[0].intValueExact()), IntValue.gen(r[0].intValueExact()), IntValue.gen(r[1].intValueExact()) }); }
  public static Value DecFromRatio(Value a, Value b){ return dec(n(a).multiply(E18).divide(n(b))); }
  public static Value MulDec(Value x, Value d){ return IntValue.gen(n(x).multiply(at(d)).divide(E18).intValueExact()); }
  public static Value DivDec(Value x, Value d){ return IntValue.gen(n(x).multiply(E18).divide(at(d)).intValueExact()); }
  public static Value DecMulInt(Value d, Value k){ return dec(at(d).multiply(n(k))); }
  public static Value DecInv(Value d){ return dec(E18.multiply(E18).divide(at(d))); }
  public static Value DecFromRatio2(Value a, Value b, Value d){ return dec(n(a).multiply(n(b)).multiply(E18).divide(n(d))); }
  public static Value AbsCrossDiffLe(Value a, Value b, Value c, Value d, Value k){ return n(a).multiply(n(b)).subtract(n(c).multiply(n(d))).abs().compareTo(n(k)) <= 0 ? BoolValue.ValTrue : BoolValue.ValFalse; }
  public static Value MulDivFloor(Value x, Value a, Value b){ return IntValue.gen(n(x).multiply(n(a)).divide(n(b)).intValueExact()); }
}
