import java.math.BigInteger;
import tlc2.value.impl.*;
/** TLC module override for Dec18.tla: the operators whose intermediates exceed TLC's 32-bit integers.
 *  The *_core methods work on BigInteger atomics and are also used by Dec18Check (kernel check against
 *  cosmwasm_std at full magnitude, outside TLC). */
public class Dec18 {
  static final BigInteger E9 = BigInteger.valueOf(1000000000L), E18 = E9.multiply(E9);
  // ---- cores (meaning of the operators, on unbounded integers; a Decimal is its atomics)
  public static BigInteger fromRatioCore(BigInteger n, BigInteger d){ return n.multiply(E18).divide(d); }
  public static BigInteger mulDecCore(BigInteger x, BigInteger dec){ return x.multiply(dec).divide(E18); }
  public static BigInteger divDecCore(BigInteger x, BigInteger dec){ return x.multiply(E18).divide(dec); }
  public static BigInteger decMulIntCore(BigInteger dec, BigInteger k){ return dec.multiply(k); }
  public static BigInteger decInvCore(BigInteger dec){ return E18.multiply(E18).divide(dec); }
  public static BigInteger mulDivFloorCore(BigInteger x, BigInteger a, BigInteger b){ return x.multiply(a).divide(b); }
  // ---- TLC values
  static BigInteger n(Value v){ return BigInteger.valueOf(((IntValue)v).val); }
  static BigInteger at(Value d){ Value[] e = ((TupleValue)d.toTuple()).elems;
    return n(e[0]).multiply(E18).add(n(e[1]).multiply(E9)).add(n(e[2])); }
  static Value dec(BigInteger v){ BigInteger[] q = v.divideAndRemainder(E18); BigInteger[] r = q[1].divideAndRemainder(E9);
    return new TupleValue(new Value[]{ IntValue.gen(q[0].intValueExact()), IntValue.gen(r[0].intValueExact()), IntValue.gen(r[1].intValueExact()) }); }
  public static Value DecFromRatio(Value a, Value b){ return dec(fromRatioCore(n(a), n(b))); }
  public static Value MulDec(Value x, Value d){ return IntValue.gen(mulDecCore(n(x), at(d)).intValueExact()); }
  public static Value DivDec(Value x, Value d){ return IntValue.gen(divDecCore(n(x), at(d)).intValueExact()); }
  public static Value DecMulInt(Value d, Value k){ return dec(decMulIntCore(at(d), n(k))); }
  public static Value DecInv(Value d){ return dec(decInvCore(at(d))); }
  public static Value DecFromRatio2(Value a, Value b, Value d){ return dec(n(a).multiply(n(b)).multiply(E18).divide(n(d))); }
  public static Value AbsCrossDiffLe(Value a, Value b, Value c, Value d, Value k){ return n(a).multiply(n(b)).subtract(n(c).multiply(n(d))).abs().compareTo(n(k)) <= 0 ? BoolValue.ValTrue : BoolValue.ValFalse; }
  public static Value MulDivFloor(Value x, Value a, Value b){ return IntValue.gen(mulDivFloorCore(n(x), n(a), n(b)).intValueExact()); }
}
