------------------------------- MODULE Queries -------------------------------
(* What one contract can learn about another (WasmQuery::Smart) or about the chain.
   Every accessor returns [ok, ...]; ok = FALSE models "no such contract / cannot parse".  *)
EXTENDS Base

QHubConfig(w, addr)  == IF addr = "hub" THEN [ok |-> TRUE, c |-> w.hubCfg] ELSE [ok |-> FALSE]
QDispConfig(w, addr) == IF addr = "dispatcher" THEN [ok |-> TRUE, c |-> w.disp] ELSE [ok |-> FALSE]
IsToken(addr) == addr \in {"bsei", "stsei"}
QSupply(w, addr) == IF IsToken(addr) THEN [ok |-> TRUE, v |-> w[addr].supply] ELSE [ok |-> FALSE, v |-> 0]

\* bank / staking queries about an arbitrary address: only the modelled accounts hold anything
QBalance(w, addr, d) == BankBal(w, addr, d)
QDelegationOf(w, addr, v) == IF addr = "hub" /\ v \in Vals THEN w.deleg[v] ELSE 0

\* registry GetValidatorsForDelegation: registered validators in key order with the delegation of
\* the registry's hub address, stably sorted by delegation ascending.  Sequence of [v, d].
RegValidatorsUnsorted(w) ==
  LET regSeq == SetToSeqAsc(w.reg.vals)
  IN [i \in 1..Len(regSeq) |-> [v |-> regSeq[i], d |-> QDelegationOf(w, w.reg.hub, regSeq[i])]]
RegValidatorsSorted(w) == StableSortAscD(RegValidatorsUnsorted(w))
QValidators(w, addr) == IF addr = "registry" THEN [ok |-> TRUE, v |-> RegValidatorsSorted(w)] ELSE [ok |-> FALSE, v |-> <<>>]

\* oracle stub: price of the stSei reward coin (usei) in the bSei reward coin (kusd)
QOracle(w, addr) ==
  IF addr # "oracle" \/ w.ext.oracle = "fail" THEN [ok |-> FALSE, v |-> Zero]
  ELSE IF w.ext.oracle = "zero" THEN [ok |-> TRUE, v |-> Zero]
  ELSE [ok |-> TRUE, v |-> w.ext.price]

\* swap stub: usei -> x at price, kusd -> x at 1/price, any other coin 1:1
SwapOut(w, d, a) == IF d = "usei" THEN MulDec(a, w.ext.price)
                    ELSE IF d = "kusd" THEN MulDec(a, DecInv(w.ext.price))
                    ELSE a
QSwapSim(w, addr, d, a) ==
  IF addr # "swap" \/ w.ext.swap # "ok" THEN [ok |-> FALSE, v |-> 0] ELSE [ok |-> TRUE, v |-> SwapOut(w, d, a)]
=============================================================================
