------------------------------- MODULE Router -------------------------------
(* CosmWasm message dispatch: a contract's handler runs to completion, its state changes are
   applied, then its messages are executed depth first in list order; any failure aborts the whole
   transaction.  Every dispatched message is appended to s.fx (the transaction's effects).    *)
EXTENDS Registry

\* swap stub (environment, DESIGN.md E5): pays SwapOut of the target coin to `to` (default: sender)
SwapHandle(w, sender, msg) ==
  IF w.ext.swap # "ok" THEN HErr(w, "swap: unavailable")
  ELSE IF msg.k # "swap_denom" THEN HErr(w, "swap: unknown message")
  ELSE LET out == SwapOut(w, msg.from_d, msg.from_a)
           to  == IF msg.to = "" THEN sender ELSE msg.to
       IN IF msg.target \notin Denoms THEN HErr(w, "swap: unknown denom")
          ELSE HOk([w EXCEPT !.bank["swap"][msg.target] = @ + out],          \* unlimited liquidity
                   IF out > 0 THEN <<BankMsg(to, msg.target, out)>> ELSE <<>>)

\* airdrop stubs (environment, DESIGN.md E5 / section 11): the registry fabricates a claim for the hub, the airdrop
\* contract hands `air.amt` tokens to the claimant, the token moves them to the pair on Send, the pair pays the
\* proceeds (1:1 in the bSei reward coin) to the reward contract
AirHandle(c, w, sender, msg) ==
  CASE c = "airdrop" /\ msg.k = "fabricate_claim" ->
         HOk(w, <<WasmMsg("hub", [k |-> "claim_airdrop", airdrop_token_contract |-> "airtoken", airdrop_contract |-> "airdropc",
                                   airdrop_swap_contract |-> "airpair"], <<>>)>>)
    [] c = "airdropc" /\ msg.k = "claim" ->
         IF sender = "hub" THEN HOk([w EXCEPT !.air.hub = @ + w.air.amt], <<>>) ELSE HOk(w, <<>>)
    [] c = "airtoken" /\ msg.k = "send" ->
         IF sender # "hub" \/ msg.amount = 0 \/ w.air.hub < msg.amount THEN HErr(w, "airtoken: insufficient balance")
         ELSE IF msg.contract # "airpair" THEN HErr(w, "airtoken: recipient is not a contract")
         ELSE HOk([w EXCEPT !.air.hub = @ - msg.amount, !.air.pair = @ + msg.amount],
                  <<WasmMsg("airpair", [k |-> "receive", sender |-> sender, amount |-> msg.amount, hook |-> "swap"], <<>>)>>)
    [] c = "airpair" /\ msg.k = "receive" ->
         IF sender # "airtoken" THEN HErr(w, "airpair: unauthorized")
         ELSE HOk([w EXCEPT !.bank["reward"]["kusd"] = @ + msg.amount], <<>>)
    [] OTHER -> HErr(w, "airdrop stub: unknown message")

Handle(c, w, sender, msg, funds) ==
  CASE c = "hub"        -> HubHandle(w, sender, msg, funds)
    [] c = "bsei"       -> TokHandle("bsei", w, sender, msg)
    [] c = "stsei"      -> TokHandle("stsei", w, sender, msg)
    [] c = "reward"     -> RewHandle(w, sender, msg)
    [] c = "dispatcher" -> DispHandle(w, sender, msg)
    [] c = "registry"   -> RegHandle(w, sender, msg)
    [] c = "swap"       -> SwapHandle(w, sender, msg)
    [] c \in {"airdrop", "airdropc", "airtoken", "airpair"} -> AirHandle(c, w, sender, msg)
    [] c = "sink"       -> HOk(w, <<>>)          \* lets a privileged handler's cascade succeed when an owner wires it in: authorisation is then
                                                \* judged on the handler's own guard, not on a sibling contract happening to reject the call
    [] OTHER            -> HErr(w, "no such contract")

\* one line of the effect log per dispatched message
FxOf(from, m) ==
  CASE m.t = "wasm"       -> [t |-> "wasm", from |-> from, to |-> m.to, k |-> m.msg.k]
    [] m.t = "bank"       -> [t |-> "bank", from |-> from, to |-> m.to, d |-> m.d, a |-> m.a]
    [] m.t = "delegate"   -> [t |-> "delegate", from |-> from, v |-> m.v, a |-> m.a]
    [] m.t = "undelegate" -> [t |-> "undelegate", from |-> from, v |-> m.v, a |-> m.a]
    [] m.t = "redelegate" -> [t |-> "redelegate", from |-> from, src |-> m.src, dst |-> m.dst, a |-> m.a]
    [] m.t = "wdreward"   -> [t |-> "wdreward", from |-> from, v |-> m.v]
    [] m.t = "setwd"      -> [t |-> "setwd", from |-> from, addr |-> m.addr]

RECURSIVE Exec(_, _, _, _, _), RunMsgs(_, _, _, _)
Dispatch(s, from, m) ==
  LET s1 == Emit(s, FxOf(from, m)) IN
  CASE m.t = "wasm"       -> Exec(s1, from, m.to, m.msg, m.funds)
    [] m.t = "bank"       -> BankMove(s1, from, m.to, m.d, m.a)
    [] m.t = "delegate"   -> StkDelegate(s1, from, m.v, m.a)
    [] m.t = "undelegate" -> StkUndelegate(s1, from, m.v, m.a)
    [] m.t = "redelegate" -> StkRedelegate(s1, from, m.src, m.dst, m.a)
    [] m.t = "wdreward"   -> DistWithdraw(s1, from, m.v)
    [] m.t = "setwd"      -> DistSetWithdrawAddr(s1, from, m.addr)

RunMsgs(s, from, msgs, i) ==
  IF ~s.ok \/ i > Len(msgs) THEN s ELSE RunMsgs(Dispatch(s, from, msgs[i]), from, msgs, i + 1)

Exec(s, sender, c, msg, funds) ==
  IF ~s.ok THEN s
  ELSE IF c \notin Contracts THEN Fail(s, "no such contract")
  ELSE LET s1 == MoveFunds(s, sender, c, funds, 1) IN
       IF ~s1.ok THEN s1
       ELSE LET r == Handle(c, s1.w, sender, msg, funds) IN
            IF ~r.ok THEN Fail(s1, r.err)
            ELSE RunMsgs(SetW(s1, r.w), c, r.msgs, 1)

\* a top-level transaction: [ok, err, w, fx]; on failure the world is the one before
Tx(w, sender, c, msg, funds) ==
  LET r == Exec(Ok(w), sender, c, msg, funds)
  IN IF r.ok THEN r ELSE [ok |-> FALSE, err |-> r.err, w |-> w, fx |-> <<>>]
=============================================================================
