------------------------------ MODULE Registry ------------------------------
(* contracts/basset_sei_validators_registry.   reg = [owner, nominee, hub, vals]  *)
EXTENDS Dispatcher

\* the redelegation cascade shared by RemoveValidator and Redelegations
RegRedelegation(w, src) ==
  LET r    == w.reg
      vs   == RegValidatorsSorted(w)                     \* after a removal: the remaining validators
      amt  == QDelegationOf(w, r.hub, src)
  IN IF amt = 0 THEN [ok |-> TRUE, msgs |-> <<>>]
     ELSE IF ~w.canRedel[src] THEN [ok |-> TRUE, msgs |-> <<>>]      \* can_redelegate < amount: nothing is sent
     ELSE LET cd == CalcDelegations(amt, [i \in 1..Len(vs) |-> vs[i].d]) IN
          IF ~cd.ok THEN [ok |-> FALSE, msgs |-> <<>>]
          ELSE LET idx == SelectSeq([i \in 1..Len(vs) |-> i], LAMBDA i : cd.plan[i] > 0)
               IN [ok |-> TRUE,
                   msgs |-> << WasmMsg(r.hub, [k |-> "redelegate_proxy", src |-> src,
                                               redelegations |-> [j \in 1..Len(idx) |-> [v |-> vs[idx[j]].v, a |-> cd.plan[idx[j]]]]], <<>>),
                               WasmMsg(r.hub, [k |-> "update_global_index", hooks |-> 0], <<>>) >>]

RegHandle(w, sender, msg) ==
  LET r == w.reg
      Put(r2) == HOk([w EXCEPT !.reg = r2], <<>>)
  IN
  CASE msg.k = "add_validator" ->
         IF sender # r.owner /\ sender # r.hub THEN HErr(w, "registry: unauthorized")
         ELSE IF msg.validator \notin Vals THEN HErr(w, "MODEL: validator outside the modelled universe")
         ELSE Put([r EXCEPT !.vals = @ \cup {msg.validator}])
    [] msg.k = "remove_validator" ->
         IF sender # r.owner THEN HErr(w, "registry: unauthorized")
         ELSE LET w1 == [w EXCEPT !.reg.vals = @ \ {msg.address}] IN
              IF w1.reg.vals = {} THEN HErr(w, "registry: cannot remove the last validator")
              ELSE LET rd == RegRedelegation(w1, msg.address) IN
                   IF ~rd.ok THEN HErr(w, "registry: delegation plan failed") ELSE HOk(w1, rd.msgs)
    [] msg.k = "redelegations" ->
         IF msg.address \in r.vals THEN HErr(w, "registry: validator is registered")
         ELSE LET rd == RegRedelegation(w, msg.address) IN
              IF ~rd.ok THEN HErr(w, "registry: delegation plan failed") ELSE HOk(w, rd.msgs)
    [] msg.k = "update_config" ->
         IF sender # r.owner THEN HErr(w, "registry: unauthorized")
         ELSE Put([r EXCEPT !.hub = IF msg.hub_contract = "" THEN @ ELSE msg.hub_contract])
    [] msg.k = "set_owner" ->
         IF sender # r.owner THEN HErr(w, "registry: unauthorized") ELSE Put([r EXCEPT !.nominee = msg.new_owner_addr])
    [] msg.k = "accept_ownership" ->
         IF sender # r.nominee THEN HErr(w, "registry: unauthorized") ELSE Put([r EXCEPT !.owner = r.nominee])
    [] OTHER -> HErr(w, "registry: unknown message")
=============================================================================
