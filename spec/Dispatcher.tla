----------------------------- MODULE Dispatcher -----------------------------
(* contracts/basset_sei_rewards_dispatcher.
   disp = [owner, nominee, hub, reward, stDenom, bDenom, keeper, rate, swap, swapDenoms, oracle] *)
EXTENDS Hub

\* contract.rs get_swap_info: [sell \in {"st","b"}, offer, share, total]
GetSwapInfo(stBonded, bBonded, availSt, availB, price, inv) ==
  LET total == availSt + MulDec(availB, inv)
      share == MulDivFloor(total, stBonded, stBonded + bBonded)
  IN IF availSt > share
     THEN [sell |-> "st", offer |-> availSt - share, share |-> share, total |-> total]
     ELSE [sell |-> "b", offer |-> MulDec(share - availSt, price), share |-> share, total |-> total]

DispSwap(w, sender, msg) ==
  LET c == w.disp IN
  IF sender # c.hub THEN HErr(w, "dispatcher: unauthorized")
  ELSE
  LET held(d) == QBalance(w, "dispatcher", d)
      known(d) == SeqContains(c.swapDenoms, d)
      \* convert_to_target_denoms over AllBalances (non-zero coins in denom order)
      coins   == SelectSeq(DenomSeq, LAMBDA d : held(d) > 0 /\ known(d))
      foreign == SelectSeq(coins, LAMBDA d : d # c.stDenom /\ d # c.bDenom)
      simOk   == \A i \in 1..Len(foreign) : QSwapSim(w, c.swap, foreign[i], held(foreign[i])).ok
      availSt == IF known(c.stDenom) THEN held(c.stDenom) ELSE 0
      availB  == (IF known(c.bDenom) /\ c.bDenom # c.stDenom THEN held(c.bDenom) ELSE 0)
                 + SumSeq([i \in 1..Len(foreign) |-> QSwapSim(w, c.swap, foreign[i], held(foreign[i])).v])
      fmsgs   == [i \in 1..Len(foreign) |-> SwapDenomMsg(c.swap, foreign[i], held(foreign[i]), c.bDenom, "")]
      orc     == QOracle(w, c.oracle)
  IN IF ~simOk THEN HErr(w, "dispatcher: swap simulation failed")
     ELSE IF ~orc.ok THEN HErr(w, "dispatcher: oracle query failed")
     ELSE IF IsZeroDec(orc.v) THEN HErr(w, "dispatcher: failed to convert exchange rate")
     ELSE IF msg.stsei_total_bonded + msg.bsei_total_bonded = 0 THEN HErr(w, "dispatcher: division by zero")
     ELSE LET si == GetSwapInfo(msg.stsei_total_bonded, msg.bsei_total_bonded, availSt, availB, orc.v, DecInv(orc.v))
              od == IF si.sell = "st" THEN c.stDenom ELSE c.bDenom
              ad == IF si.sell = "st" THEN c.bDenom ELSE c.stDenom
          IN HOk(w, IF si.offer > 0 THEN Append(fmsgs, SwapDenomMsg(c.swap, od, si.offer, ad, "")) ELSE fmsgs)

\* execute_dispatch_rewards.  ZeroKeeperSend: the keeper transfer and the bSei-side remainder are
\* emitted even when they are zero (the bank then rejects the whole transaction).
DispDispatch(w, sender) ==
  LET c == w.disp IN
  IF sender # c.hub THEN HErr(w, "dispatcher: unauthorized")
  ELSE
  LET stBal == QBalance(w, "dispatcher", c.stDenom)
      bBal  == QBalance(w, "dispatcher", c.bDenom)
      kB    == MulDec(bBal, c.rate)
      kSt   == MulDec(stBal, c.rate)
      mB    == IF bBal > 0 THEN <<BankMsg(c.keeper, c.bDenom, kB), BankMsg(c.reward, c.bDenom, bBal - kB)>> ELSE <<>>
      mSt   == IF stBal > 0
               THEN <<BankMsg(c.keeper, c.stDenom, kSt)>>
                    \o (IF stBal - kSt > 0 THEN <<WasmMsg(c.hub, [k |-> "bond_rewards"], <<Coin(c.stDenom, stBal - kSt)>>)>> ELSE <<>>)
               ELSE <<>>
  IN IF stBal > 0 /\ stBal < kSt THEN HErr(w, "dispatcher: keeper share exceeds balance")
     ELSE HOk(w, mB \o mSt \o <<WasmMsg(c.reward, [k |-> "update_global_index"], <<>>)>>)

DispHandle(w, sender, msg) ==
  LET c == w.disp
      Put(c2) == HOk([w EXCEPT !.disp = c2], <<>>)
  IN
  CASE msg.k = "swap_to_reward_denom" -> DispSwap(w, sender, msg)
    [] msg.k = "dispatch_rewards"     -> DispDispatch(w, sender)
    [] msg.k = "update_config" ->
         IF sender # c.owner THEN HErr(w, "dispatcher: unauthorized")
         ELSE IF msg.stsei_reward_denom # "" THEN HErr(w, "dispatcher: updating stSei reward denom is forbidden")
         ELSE IF msg.krp_keeper_rate # NoneDec /\ DecLt(One, msg.krp_keeper_rate) THEN HErr(w, "dispatcher: keeper rate above 1")
         ELSE Put([c EXCEPT !.hub    = IF msg.hub_contract = "" THEN @ ELSE msg.hub_contract,
                            !.reward = IF msg.bsei_reward_contract = "" THEN @ ELSE msg.bsei_reward_contract,
                            !.bDenom = IF msg.bsei_reward_denom = "" THEN @ ELSE msg.bsei_reward_denom,
                            !.rate   = IF msg.krp_keeper_rate = NoneDec THEN @ ELSE msg.krp_keeper_rate,
                            !.keeper = IF msg.krp_keeper_address = "" THEN @ ELSE msg.krp_keeper_address])
    [] msg.k = "update_swap_contract" ->
         IF sender # c.owner THEN HErr(w, "dispatcher: unauthorized") ELSE Put([c EXCEPT !.swap = msg.swap_contract])
    [] msg.k = "update_oracle_contract" ->
         IF sender # c.owner THEN HErr(w, "dispatcher: unauthorized") ELSE Put([c EXCEPT !.oracle = msg.oracle_contract])
    [] msg.k = "update_swap_denom" ->
         IF sender # c.owner THEN HErr(w, "dispatcher: unauthorized")
         ELSE Put([c EXCEPT !.swapDenoms = IF msg.is_add THEN Append(@, msg.swap_denom) ELSE SeqRemoveAll(@, msg.swap_denom)])
    [] msg.k = "set_owner" ->
         IF sender # c.owner THEN HErr(w, "dispatcher: unauthorized") ELSE Put([c EXCEPT !.nominee = msg.new_owner_addr])
    [] msg.k = "accept_ownership" ->
         IF sender # c.nominee THEN HErr(w, "dispatcher: unauthorized") ELSE Put([c EXCEPT !.owner = c.nominee])
    [] OTHER -> HErr(w, "dispatcher: unknown message")
=============================================================================
