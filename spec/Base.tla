-------------------------------- MODULE Base --------------------------------
(* The world record, the transaction context, and the chain modules (bank, staking,
   distribution, block time) that the six contracts talk to.  DESIGN.md sections 3.2 and 4.

   World `w` (everything a transaction can read or write; ghosts and the last-event record live
   outside of it):
     now, height                    block time (seconds) and height
     bank[acct][denom]              liquid coins
     deleg[v]                       the hub's delegation on validator v (only the hub stakes)
     unbq                           unbonding queue, sequence of [v, amt, at]
     pend[v][denom]                 staking rewards accrued on v, not yet withdrawn
     wdAddr                         the hub's distribution withdraw address
     canRedel[v]                    FALSE = the chain reports can_redelegate = 0 for v
     ext                            swap / oracle stubs: [swap, oracle \in {"ok","fail","zero"}, price]
     hubCfg, hubPar, hub, batch, hist, wait, legacy      hub contract
     bsei, stsei                    the two cw20 ledgers
     rew, disp, reg                 reward, dispatcher, registry contracts
     air                            airdrop stubs: [hub, pair] airdrop-token balances, amt handed out per claim

   Context `s` threads a transaction: [ok, err, w, fx]; fx is the list of messages dispatched so
   far (depth first, in execution order) — the observable effects of the transaction.          *)
EXTENDS Dec18, Util, Distrib, TLC

CONSTANTS Users,      \* set of user account names (strings, >= 3 characters)
          NV,         \* validators are 1..NV ("val1".."valN" in the implementation)
          MaxBatch    \* wait lists are functions over 1..MaxBatch

Vals      == 1..NV
Accts     == Users \cup {"hub"}                                  \* cw20 account universe
BankAccts == Users \cup {"hub", "reward", "dispatcher", "keeper", "swap"}
Denoms    == {"kusd", "ufor", "usei"}
DenomSeq  == <<"kusd", "ufor", "usei">>                          \* AllBalances order (by denom)
Contracts == {"hub", "reward", "dispatcher", "registry", "bsei", "stsei", "swap", "oracle",
              "airdrop", "airdropc", "airtoken", "airpair",      \* airdrop registry / airdrop contract / airdrop token / pair (stubs)
              "sink"}                                            \* a contract that accepts every message and does nothing

NoneDec == <<>>            \* Option<Decimal>::None
NoneInt == -1              \* Option<u64>::None
NoneStr == ""              \* Option<String>::None   (the empty string is never a valid address)
Never == [k |-> "never", v |-> 0]

ZeroCoins == [d \in Denoms |-> 0]

-----------------------------------------------------------------------------
\* context
Ok(w)        == [ok |-> TRUE, err |-> "", w |-> w, fx |-> <<>>]
Fail(s, e)   == [s EXCEPT !.ok = FALSE, !.err = IF s.err = "" THEN e ELSE s.err]
SetW(s, w)   == [s EXCEPT !.w = w]
Emit(s, e)   == [s EXCEPT !.fx = Append(@, e)]
\* handler result: new world + messages to dispatch, or an error
HOk(w, msgs) == [ok |-> TRUE, err |-> "", w |-> w, msgs |-> msgs]
HErr(w, e)   == [ok |-> FALSE, err |-> e, w |-> w, msgs |-> <<>>]

\* messages a contract can return
WasmMsg(to, msg, funds) == [t |-> "wasm", to |-> to, msg |-> msg, funds |-> funds]
BankMsg(to, d, a)       == [t |-> "bank", to |-> to, d |-> d, a |-> a]
DelegateMsg(v, a)       == [t |-> "delegate", v |-> v, a |-> a]
UndelegateMsg(v, a)     == [t |-> "undelegate", v |-> v, a |-> a]
RedelegateMsg(src, dst, a) == [t |-> "redelegate", src |-> src, dst |-> dst, a |-> a]
WdRewardMsg(v)          == [t |-> "wdreward", v |-> v]
SetWdMsg(addr)          == [t |-> "setwd", addr |-> addr]
Coin(d, a)              == [d |-> d, a |-> a]

-----------------------------------------------------------------------------
\* bank
BankBal(w, a, d) == IF a \in BankAccts /\ d \in Denoms THEN w.bank[a][d] ELSE 0

BankMove(s, from, to, d, a) ==
  IF a <= 0 THEN Fail(s, "bank: zero amount")
  ELSE IF d \notin Denoms \/ from \notin BankAccts THEN Fail(s, "bank: insufficient funds")
  ELSE IF s.w.bank[from][d] < a THEN Fail(s, "bank: insufficient funds")
  ELSE IF to \notin BankAccts THEN SetW(s, [s.w EXCEPT !.bank[from][d] = @ - a])   \* leaves the modelled accounts
  ELSE IF from = to THEN s
  ELSE SetW(s, [s.w EXCEPT !.bank[from][d] = @ - a, !.bank[to][d] = @ + a])

RECURSIVE MoveFunds(_, _, _, _, _)
MoveFunds(s, from, to, funds, i) ==
  IF ~s.ok \/ i > Len(funds) THEN s
  ELSE MoveFunds(BankMove(s, from, to, funds[i].d, funds[i].a), from, to, funds, i + 1)

-----------------------------------------------------------------------------
\* staking + distribution (the hub is the only delegator)
TotalDeleg(w) == SumFn(w.deleg, Vals)
\* StakingQuery::AllDelegations{hub}: validator order, zero entries omitted
DelegatedVals(w) == SelectSeq([i \in 1..NV |-> i], LAMBDA v : w.deleg[v] > 0)

AutoWithdraw(w, v) ==
  LET to == w.wdAddr IN
  IF to \in BankAccts
  THEN [w EXCEPT !.bank[to] = [d \in Denoms |-> @[d] + w.pend[v][d]], !.pend[v] = ZeroCoins]
  ELSE [w EXCEPT !.pend[v] = ZeroCoins]

StkDelegate(s, from, v, a) ==
  IF from # "hub" THEN Fail(s, "staking: only the hub is modelled as delegator")
  ELSE IF v \notin Vals THEN Fail(s, "staking: unknown validator")
  ELSE IF a <= 0 THEN Fail(s, "staking: zero delegate")
  ELSE LET w1 == AutoWithdraw(s.w, v) IN
       IF w1.bank["hub"]["usei"] < a THEN Fail(s, "staking: insufficient funds")
       ELSE SetW(s, [w1 EXCEPT !.bank["hub"]["usei"] = @ - a, !.deleg[v] = @ + a])

\* The SDK keeps at most 7 simultaneous unbonding entries per (delegator, validator) pair; section 4 (E2) leaves the limit
\* out.  MaxEntries > 0 (switched on only by the exploration "E2-maxentries": MaxEntries <- MaxEntriesOn) models it.
MaxEntries   == 0
MaxEntriesOn == 7
StkUndelegate(s, from, v, a) ==
  IF from # "hub" THEN Fail(s, "staking: only the hub is modelled as delegator")
  ELSE IF v \notin Vals THEN Fail(s, "staking: unknown validator")
  ELSE IF a <= 0 \/ s.w.deleg[v] < a THEN Fail(s, "staking: invalid undelegate")
  ELSE IF MaxEntries > 0 /\ Cardinality({i \in 1..Len(s.w.unbq) : s.w.unbq[i].v = v}) >= MaxEntries
       THEN Fail(s, "staking: too many unbonding entries")
  ELSE LET w1 == AutoWithdraw(s.w, v) IN
       SetW(s, [w1 EXCEPT !.deleg[v] = @ - a,
                          !.unbq = Append(@, [v |-> v, amt |-> a, at |-> w1.now + w1.chainUnbonding])])

StkRedelegate(s, from, src, dst, a) ==
  IF from # "hub" THEN Fail(s, "staking: only the hub is modelled as delegator")
  ELSE IF src \notin Vals \/ dst \notin Vals THEN Fail(s, "staking: unknown validator")
  ELSE IF a <= 0 \/ s.w.deleg[src] < a THEN Fail(s, "staking: invalid redelegate")
  ELSE LET w1 == AutoWithdraw(AutoWithdraw(s.w, src), dst) IN
       IF src = dst THEN SetW(s, w1)
       ELSE SetW(s, [w1 EXCEPT !.deleg[src] = @ - a, !.deleg[dst] = @ + a])

DistWithdraw(s, from, v) ==
  IF from # "hub" THEN Fail(s, "distribution: only the hub is modelled as delegator")
  ELSE IF v \notin Vals THEN Fail(s, "distribution: no delegation")
  ELSE IF s.w.deleg[v] = 0 THEN Fail(s, "distribution: no delegation")
  ELSE SetW(s, AutoWithdraw(s.w, v))

DistSetWithdrawAddr(s, from, addr) ==
  IF from # "hub" THEN s           \* another contract's withdraw address is of no consequence here
  ELSE SetW(s, [s.w EXCEPT !.wdAddr = addr])

-----------------------------------------------------------------------------
\* environment events (not transactions of the contracts)
\* E2 (DESIGN.md section 4): matured unbonding entries are paid before the transactions of the first block whose time
\* is >= their completion time.  PayLag (switched on only by the exploration configuration "E2-paylag", through a
\* definition override PayLag <- PayLagOn) models the SDK's real behaviour instead: entries are paid by the end-blocker,
\* so the transactions of a block see only what had matured by the *previous* block's time.
PayLag   == FALSE
PayLagOn == TRUE
EnvAdvance(w, dt) ==
  LET t   == w.now + dt
      lim == IF PayLag THEN w.now ELSE t
      due == {i \in 1..Len(w.unbq) : w.unbq[i].at <= lim}
      amt == SumFn([i \in due |-> w.unbq[i].amt], due)
  IN [w EXCEPT !.now = t, !.height = @ + 1,
               !.bank["hub"]["usei"] = @ + amt,
               !.unbq = SelectSeq(w.unbq, LAMBDA e : e.at > lim)]

\* slash validator v's bonded stake by 1/k (slashed amount floored); never to zero
EnvSlashBondedOk(w, v, k) == w.deleg[v] \div k > 0 /\ w.deleg[v] - (w.deleg[v] \div k) > 0
EnvSlashBonded(w, v, k) == [w EXCEPT !.deleg[v] = @ - (@ \div k)]
\* slash the unbonding entries of validator v by 1/k
EnvSlashUnbondingOk(w, v, k) == \E i \in 1..Len(w.unbq) : w.unbq[i].v = v /\ w.unbq[i].amt \div k > 0
EnvSlashUnbonding(w, v, k) ==
  [w EXCEPT !.unbq = [i \in 1..Len(w.unbq) |->
        IF w.unbq[i].v = v THEN [w.unbq[i] EXCEPT !.amt = @ - (@ \div k)] ELSE w.unbq[i]]]
\* staking rewards accrue only where the hub has a delegation (DESIGN.md E3)
EnvAccrueOk(w, v) == w.deleg[v] > 0
EnvAccrue(w, v, d, a) == [w EXCEPT !.pend[v][d] = @ + a]
=============================================================================
