CONSTANTS
  Users = {"usr1", "usr2"}
  NV = 1
  MaxBatch = 6
  Epoch = 2
  Unbonding = 5
  Fee <- FeeAny
  Thr <- One
  KeeperRate <- Zero
  Price <- One
  T0 = 1000
  UserFunds = 1000
  InitVals = {1}
  Known = {"K1", "K2", "K3"}
SPECIFICATION TSpec
CHECK_DEADLOCK FALSE
INVARIANTS Report Inv_C01 Inv_C03 Inv_C05 Inv_C06 Inv_C07 Inv_C08 Inv_C14 Inv_C15 Inv_C16 Inv_C18
PROPERTIES Act_C01 Act_C02 Act_C03 Act_C04 Act_C05 Act_C06 Act_C07 Act_C08 Act_C09 Act_C14 Act_C15 Act_C18 Act_C19
POSTCONDITION Accepted
