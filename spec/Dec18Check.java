import java.io.*;
import java.math.BigInteger;
/** Kernel check: every line "op a b [c] = r" was computed by the REAL cosmwasm_std / cosmwasm-bignumber
 *  arithmetic (harness `kernel`); recompute with the Dec18 cores and compare. Decimals are given as atomics. */
public class Dec18Check {
  public static void main(String[] a) throws IOException {
    BufferedReader r = new BufferedReader(new FileReader(a[0]));
    String l; long n = 0, bad = 0;
    while ((l = r.readLine()) != null) {
      String[] t = l.trim().split(" ");
      if (t.length < 4) continue;
      BigInteger x = new BigInteger(t[1]), y = new BigInteger(t[2]);
      BigInteger got;
      switch (t[0]) {
        case "from_ratio": got = Dec18.fromRatioCore(x, y); break;
        case "mul_dec": got = Dec18.mulDecCore(x, y); break;
        case "div_dec": got = Dec18.divDecCore(x, y); break;
        case "dec_mul_int": got = Dec18.decMulIntCore(x, y); break;
        case "dec_inv": got = Dec18.decInvCore(x); break;
        case "mul_div": got = Dec18.mulDivFloorCore(x, y, new BigInteger(t[3])); break;
        default: continue;
      }
      BigInteger want = new BigInteger(t[t.length - 1]);
      n++;
      if (!got.equals(want)) { bad++; if (bad <= 5) System.out.println("KERNEL MISMATCH " + l + " java=" + got); }
    }
    System.out.println("{\"cases\": " + n + ", \"mismatches\": " + bad + "}");
    System.exit(bad == 0 ? 0 : 1);
  }
}
