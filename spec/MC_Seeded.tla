------------------------------ MODULE MC_Seeded ------------------------------
(* Exhaustive exploration to a fixed depth from *seed states recorded from the real contracts*
   (deep, realistic histories that breadth-first search from Init never reaches).  The seeds are
   projected states of an implementation trace (IOEnv.SEEDS, one JSON object per line with field
   `st`); every seed is reachable by construction - the harness reached it - and the events that
   led to it are kept by the check so that a counterexample can be replayed from genesis.
   Ghost accumulators start fresh at a seed, so only ghost-free formulas are checked here.     *)
EXTENDS MC_HubFlow, IOUtils

CONSTANT SeedDepth
Seeds == ndJsonDeserialize(IOEnv.SEEDS)
SeedWorld(i) == [Seeds[i].st EXCEPT !.reg.vals = SeqRange(@)]
\* the seed's index is carried in the step counter (steps = 1000 * i + steps taken)
SeedInit == \E i \in 1..Len(Seeds) :
              /\ w = SeedWorld(i) /\ g = [InitGhost EXCEPT !.steps = 1000 * i] /\ ev = InitEv /\ obs = ObsOf(SeedWorld(i))
SeedBound == (g.steps % 1000) <= SeedDepth /\ w.batch.id <= MaxBatch
=============================================================================
