------------------------------- MODULE Ledger -------------------------------
(* The cw20 ledger operations shared by both token contracts, as pure functions on a token
   record.  Written in the fragment that both TLC and Apalache accept (typed, no recursion):
   Cw20.tla builds the contracts' handlers from these operators, Ledger_apa.tla proves with
   Apalache - over unbounded integers - that each of them preserves
       sum of all balances + balances outside the modelled accounts = total supply.          *)
EXTENDS Integers

\* @typeAlias: allowance = {has: Bool, amt: Int, exp: {k: Str, v: Int}};
\* @typeAlias: token = {hub: Str, minter: Str, supply: Int, bal: Str -> Int, other: Int, allow: Str -> (Str -> $allowance), marketing: Str};
LedgerAliases == TRUE

\* @type: ($token, Str) => Int;
LBal(t, a) == IF a \in DOMAIN t.bal THEN t.bal[a] ELSE 0
\* @type: ($token, Str, Int) => $token;
LCredit(t, a, x) == IF a \in DOMAIN t.bal THEN [t EXCEPT !.bal[a] = @ + x] ELSE [t EXCEPT !.other = @ + x]
\* @type: ($token, Str, Int) => $token;
LDebit(t, a, x)  == [t EXCEPT !.bal[a] = @ - x]
\* @type: ($token, Str, Str, Int) => $token;
LMove(t, from, to, x) == LCredit(LDebit(t, from, x), to, x)
\* @type: ($token, Str, Int) => $token;
LMint(t, to, x) == LCredit([t EXCEPT !.supply = @ + x], to, x)
\* @type: ($token, Str, Int) => $token;
LBurn(t, from, x) == [LDebit(t, from, x) EXCEPT !.supply = @ - x]
\* @type: ($token, Str, Str, Int) => $token;
LSpend(t, owner, spender, x) == [t EXCEPT !.allow[owner][spender].amt = @ - x]
=============================================================================
