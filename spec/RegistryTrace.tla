---------------------------- MODULE RegistryTrace ----------------------------
(* C12 in trace mode: the cases were executed by the REAL calculate_delegations /
   calculate_undelegations (harness `grid`); conformance with Distrib.tla and the post-conditions
   of MC_Registry evaluated on the implementation's results.                                 *)
EXTENDS MC_Registry
VARIABLES l, conf, firstBad
Rec == ndJsonDeserialize(IOEnv.TRACE)
TInit == c = Case(<<>>, 0) /\ l = 1 /\ conf = TRUE /\ firstBad = 0
TNext == /\ l <= Len(Rec) /\ l' = l + 1
         /\ c' = [d |-> Rec[l].d, amt |-> Rec[l].amt, dl |-> Rec[l].dl, ud |-> Rec[l].ud]
         /\ LET okk == Case(Rec[l].d, Rec[l].amt) = c' IN
            /\ conf' = (conf /\ okk) /\ firstBad' = IF firstBad = 0 /\ ~okk THEN l ELSE firstBad
TSpec == TInit /\ [][TNext]_<<c, l, conf, firstBad>>
Report == l <= Len(Rec) \/ PrintT(<<"TRACE-RESULT", [events |-> Len(Rec), conformant |-> conf, firstBad |-> firstBad]>>)
Accepted == TLCGet("stats").diameter - 1 = Len(Rec)
=============================================================================
