----------------------------- MODULE Ledger_apa -----------------------------
(* Apalache: the ledger operations of Ledger.tla preserve conservation for ALL amounts.
   IndInv is inductive:  Init => IndInv  and  IndInv /\ Next => IndInv'.                     *)
EXTENDS Ledger, Apalache

CONSTANT
  \* @type: Set(Str);
  Acc
VARIABLE
  \* @type: $token;
  t

ConstInit == Acc = {"a1", "a2", "a3", "hub"}

\* @type: (Str -> Int, Set(Str)) => Int;
SumBal(b, S) == ApaFoldSet(LAMBDA acc, a : acc + b[a], 0, S)

TypeOK == /\ DOMAIN t.bal = Acc /\ DOMAIN t.allow = Acc /\ \A o \in Acc : DOMAIN t.allow[o] = Acc
Conserved == SumBal(t.bal, Acc) + t.other = t.supply
NonNeg == t.other >= 0 /\ t.supply >= 0 /\ \A a \in Acc : t.bal[a] >= 0
AllowNonNeg == \A o \in Acc : \A s \in Acc : t.allow[o][s].amt >= 0
IndInv == TypeOK /\ Conserved /\ NonNeg /\ AllowNonNeg

Init == /\ t = Gen(5) /\ IndInv /\ t.supply = 0
IndInit == t = Gen(5) /\ IndInv

\* every way a token handler uses the ledger, under the handler's own guard
Next ==
  \E from \in Acc, to \in Acc \cup {"outsider"}, sp \in Acc, x \in Nat :
    \/ /\ x >= 1 /\ LBal(t, from) >= x /\ t' = LMove(t, from, to, x)                                   \* transfer / send
    \/ /\ x >= 1 /\ t' = LMint(t, to, x)                                                               \* mint
    \/ /\ x >= 1 /\ LBal(t, from) >= x /\ t' = LBurn(t, from, x)                                       \* burn
    \/ /\ t.allow[from][sp].has /\ t.allow[from][sp].amt >= x /\ LBal(t, from) >= x
       /\ t' = LMove(LSpend(t, from, sp, x), from, to, x)                                              \* transfer_from / send_from
    \/ /\ t.allow[from][sp].has /\ t.allow[from][sp].amt >= x /\ LBal(t, from) >= x
       /\ t' = LBurn(LSpend(t, from, sp, x), from, x)                                                  \* burn_from
    \/ t' = [t EXCEPT !.allow[from][sp] = [has |-> TRUE, amt |-> @.amt + x, exp |-> @.exp]]             \* increase_allowance
    \/ UNCHANGED t
=============================================================================
