----------------------------- MODULE MC_HubFlow -----------------------------
(* Hub flow: bond / unbond / convert / withdraw / check-slashing / transfers, with time,
   slashing of bonded and unbonding stake, unsolicited transfers, index updates.          *)
EXTENDS PropDefs, TLCExt, Json

CONSTANTS Amts, Dts, SlashDiv, MaxSteps, MaxTime, EmitLen, OnlyOk, Features, RewardAmts

U1 == CHOOSE u \in Users : TRUE
NoExp == [k |-> "none", v |-> 0]
TxsOf(f) ==
  CASE f = "core" ->
         UNION { {TxBond(u, a), TxBondSt(u, a), TxUnbondB(u, a), TxUnbondSt(u, a), TxConvertBSt(u, a), TxConvertStB(u, a)}
                 : u \in Users, a \in Amts }
         \cup {TxWithdraw(u) : u \in Users} \cup {TxCheckSlashing(U1)} \cup {EvAdvance(dt) : dt \in Dts}
    [] f = "slash"    -> {EvSlash(v, n) : v \in Vals, n \in SlashDiv} \cup {EvSlashUnb(v, n) : v \in Vals, n \in SlashDiv}
    [] f = "donate"   -> {EvDonate(u, 1) : u \in Users}
    [] f = "transfer" -> {TxTransfer(t, u, v, a) : t \in {"bsei", "stsei"}, u \in Users, v \in Accts, a \in Amts}
    [] f = "allow"    -> UNION { { ExecTx(u, t, [k |-> "increase_allowance", spender |-> v, amount |-> a, expires |-> NoExp], <<>>),
                                   ExecTx(v, t, [k |-> "transfer_from", owner |-> u, recipient |-> v, amount |-> a], <<>>),
                                   ExecTx(v, t, [k |-> "burn_from", owner |-> u, amount |-> a], <<>>),
                                   ExecTx(v, t, [k |-> "send_from", owner |-> u, contract |-> "hub", amount |-> a, hook |-> "unbond"], <<>>) }
                                 : t \in {"bsei", "stsei"}, u \in Users, v \in Users \ {U1}, a \in Amts }
    [] f = "reward"   -> {EvAccrue(v, d, a) : v \in Vals, d \in {"usei", "kusd"}, a \in RewardAmts}
                         \cup {TxUpdateGlobal} \cup {TxClaim(u) : u \in Users}
    [] f = "rewardlab" -> {TxMint("bsei", u, a) : u \in Users, a \in Amts} \cup {EvDeliver("kusd", a) : a \in RewardAmts}
                         \cup {TxIndexUpdate} \cup {TxClaim(u) : u \in Users}
                         \cup {TxTransfer("bsei", u, v, a) : u \in Users, v \in Accts, a \in Amts}
                         \cup {ExecTx("hub", "bsei", [k |-> "burn", amount |-> a], <<>>) : a \in Amts}
    [] f = "tokinit"  -> {[k |-> "instantiate_token", c |-> t, init |-> i] : t \in {"bsei", "stsei"},
                             i \in {<<>>, <<[a |-> U1, x |-> 5]>>, <<[a |-> U1, x |-> 5], [a |-> U1, x |-> 7]>>,
                                    <<[a |-> U1, x |-> 5], [a |-> "hub", x |-> 2]>>}}
    [] f = "airdrop"  -> {[k |-> "set_airdrop", a |-> a] : a \in {0, 5}}
                         \cup {ExecTx("owner", "hub", [k |-> "update_config", dispatcher |-> "", registry |-> "", bsei |-> "", stsei |-> "",
                                                        airdrop |-> "airdrop", rewards |-> "", updater |-> ""], <<>>)}
                         \cup {ExecTx(s, "hub", [k |-> "claim_airdrop", airdrop_token_contract |-> "airtoken", airdrop_contract |-> "airdropc",
                                                  airdrop_swap_contract |-> "airpair"], <<>>) : s \in {"airdrop", U1}}
                         \cup {ExecTx(U1, "airdrop", [k |-> "fabricate_claim"], <<>>)}
                         \cup {ExecTx("updater", "hub", [k |-> "update_global_index", hooks |-> h], <<>>) : h \in {1, 2}}
    [] f = "registry" -> {TxAddValidator(v) : v \in Vals} \cup {TxRemoveValidator(v) : v \in Vals}
                         \cup {TxRedelegations(U1, v) : v \in Vals}
                         \cup {[k |-> "set_canredel", v |-> v, b |-> b] : v \in Vals, b \in BOOLEAN}
    [] f = "pause"    -> {TxPause("t"), TxPause("f"), TxPause("")}
    [] f = "ext"      -> {[k |-> "set_ext", swap |-> m.swap, oracle |-> m.oracle, price |-> Price] : m \in ExtModes}
    [] OTHER -> {}
Txs == UNION {TxsOf(f) : f \in Features}

Next == \E tx \in Txs : IF OnlyOk THEN StepOk(tx) ELSE Step(tx)
Spec == Init /\ [][Next]_vars

Bound == g.steps <= MaxSteps /\ w.now <= MaxTime /\ w.batch.id <= MaxBatch
View == w
HuntBound == \A a \in BankAccts, d \in Denoms : w.bank[a][d] <= 100000000
EmitTrace == TLCGet("level") # EmitLen \/ PrintT(<<"TRACE", ToJson([i \in 1..Len(Trace) |-> [w |-> Trace[i].w, ev |-> Trace[i].ev, obs |-> Trace[i].obs]])>>)

=============================================================================
