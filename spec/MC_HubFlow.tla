----------------------------- MODULE MC_HubFlow -----------------------------
(* Hub flow: bond / unbond / convert / withdraw / check-slashing / transfers, with time,
   slashing of bonded and unbonding stake, unsolicited transfers, index updates.          *)
EXTENDS PropDefs, TLCExt, Json

CONSTANTS Amts, Dts, SlashDiv, MaxSteps, MaxTime, EmitLen, OnlyOk

FeeHalf   == <<0, 500000000, 0>>
FeeSmall  == <<0, 5000000, 0>>
FeeOne    == One
FeeZero   == Zero
ThrOne    == One
Thr095    == <<0, 950000000, 0>>
Rate005   == <<0, 50000000, 0>>
RateThird == <<0, 333333333, 333333333>>
PriceOne  == One
Price075  == <<0, 750000000, 0>>

Txs ==
  UNION { {TxBond(u, a), TxBondSt(u, a), TxUnbondB(u, a), TxUnbondSt(u, a), TxConvertBSt(u, a), TxConvertStB(u, a)}
          : u \in Users, a \in Amts }
  \cup {TxWithdraw(u) : u \in Users}
  \cup {TxCheckSlashing(CHOOSE u \in Users : TRUE)}
  \cup {EvAdvance(dt) : dt \in Dts}
  \cup {EvSlash(v, n) : v \in InitVals, n \in SlashDiv}
  \cup {EvSlashUnb(v, n) : v \in InitVals, n \in SlashDiv}
  \cup {EvDonate(u, a) : u \in Users, a \in {1}}

Next == \E tx \in Txs : IF OnlyOk THEN StepOk(tx) ELSE Step(tx)
Spec == Init /\ [][Next]_vars

Bound == g.steps <= MaxSteps /\ w.now <= MaxTime /\ w.batch.id <= MaxBatch
View == w
EmitTrace == TLCGet("level") # EmitLen \/ PrintT(<<"TRACE", ToJson([i \in 1..Len(Trace) |-> [w |-> Trace[i].w, ev |-> Trace[i].ev, obs |-> Trace[i].obs]])>>)

=============================================================================
