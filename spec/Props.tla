-------------------------------- MODULE Props --------------------------------
(* The twenty properties of /verif/properties.jsonl as TLA+ formulas, shared by model checking
   (evaluated on the states of the specification) and by trace validation (evaluated on the
   projected states of the real contracts).  They are written from the property statements over
   the observable state - reported rates, balances, queries, effects of a transaction - not copied
   from the handler definitions.

   Shape: state predicates are INVARIANTs; step predicates P(w1, e, w2, g1, o1, o2) are wrapped as
   action properties [][P(w, ev', w', g, obs, obs')]_vars.  `Known` is the set of known-finding
   signatures (known_findings.jsonl); a formula guarded by a signature still reports every
   violation that does not match it.                                                          *)
EXTENDS Krp

CONSTANT Known      \* subset of {"K1", "K2"}

-----------------------------------------------------------------------------
\* vocabulary
TopTx(e)  == IF e.tx.k = "probe" THEN e.tx.tx ELSE e.tx          \* the transaction attempted (probe = dry run)
IsProbe(e) == e.tx.k = "probe"
IsExecEv(e) == TopTx(e).k = "exec"
ExecIs(e, c, k) == IsExecEv(e) /\ TopTx(e).c = c /\ TopTx(e).msg.k = k
Committed(e, c, k) == e.ok /\ ~IsProbe(e) /\ ExecIs(e, c, k)      \* a successful, committed top-level call
IsHookTx(e, tok, hook) ==
  /\ IsExecEv(e) /\ TopTx(e).c = tok /\ TopTx(e).msg.k \in {"send", "send_from"}
  /\ TopTx(e).msg.contract = "hub" /\ TopTx(e).msg.hook = hook
HookOwner(e) == IF TopTx(e).msg.k = "send" THEN TopTx(e).sender ELSE TopTx(e).msg.owner   \* whose tokens move
FxOfKind(e, t) == SelectSeq(e.fx, LAMBDA x : x.t = t)
FxWasm(e, from, to, k) == \E i \in 1..Len(e.fx) : e.fx[i].t = "wasm" /\ e.fx[i].from = from /\ e.fx[i].to = to /\ e.fx[i].k = k
SumAmt(seq) == SumSeq([i \in 1..Len(seq) |-> seq[i].a])
HubCalled(e) == (IsExecEv(e) /\ TopTx(e).c = "hub") \/ \E i \in 1..Len(e.fx) : e.fx[i].t = "wasm" /\ e.fx[i].to = "hub"
EnvSlash(e) == e.tx.k \in {"slash", "slash_unb"}

ClaimsB(w0)  == w0.bsei.supply + w0.batch.reqB
ClaimsSt(w0) == w0.stsei.supply + w0.batch.reqSt
Books(h) == h.bondB + h.bondSt
HubCoins(w0) == BankBal(w0, "hub", "usei")
Staked(w0) == Books(w0.hub) > 0 /\ TotalDeleg(w0) > 0

\* K2 (known finding): slashing recognition rounded a pool to zero while its token has claims
\* (`rep` is the hub's reported state of that moment - the real State query in traces - not the specification's recomputation)
PoolZero(tok, w0, rep) == IF tok = "bsei" THEN rep.bondB = 0 /\ ClaimsB(w0) > 0
                                          ELSE rep.bondSt = 0 /\ ClaimsSt(w0) > 0
K2Guard(tok, w0, rep) == "K2" \in Known /\ PoolZero(tok, w0, rep)
K2Any(w0, rep) == K2Guard("bsei", w0, rep) \/ K2Guard("stsei", w0, rep)

\* value of u's claims once everything matured has been released (release-then-pay, as WithdrawUnbonded does)
MaturedHistory(w0) ==
  IF w0.now < w0.hubPar.unbonding THEN w0.hist
  ELSE LET G == ReleaseGroup(w0.hist, w0.hub.lastProc, w0.now - w0.hubPar.unbonding)
           arrived == HubCoins(w0) - w0.hub.prevBal
       IN IF G = {} \/ arrived < 0 THEN w0.hist ELSE ReleasedHistory(w0.hist, G, arrived)
ClaimValue(hist, wt) == LET S == MineReleased(hist, wt) IN SumFn([i \in S |-> ClaimOn(hist, wt, i)], S)
WithdrawValue(u, w0) == ClaimValue(MaturedHistory(w0), w0.wait[u])
ReleasedUnpaid(w0) == SumFn([u \in Accts |-> ClaimValue(w0.hist, w0.wait[u])], Accts)
NewlyReleased(w1, w2) == {i \in 1..Len(w2.hist) : w2.hist[i].released /\ (i > Len(w1.hist) \/ ~w1.hist[i].released)}

-----------------------------------------------------------------------------
\* C01 - matured claims funded, paid exactly once, order-independent
C01_Solvent(w0) == HubCoins(w0) >= w0.hub.prevBal /\ w0.hub.prevBal >= ReleasedUnpaid(w0)

\* (b) a withdrawal attempt (committed or dry run) by a claimant whose matured claims are worth >= 1 succeeds
\* "worth >= 1": by the final rates the contracts themselves recorded for released batches, or - for matured batches the
\* withdrawal itself would release - by the rates the specification predicts, with one unit of margin for a different
\* (admissible) rounding of the release
C01_WithdrawSucceeds(w1, e) ==
  (ExecIs(e, "hub", "withdraw_unbonded") /\ TopTx(e).sender \in Accts /\ ~w1.hubPar.paused
     /\ w1.now >= w1.hubPar.unbonding
     /\ (ClaimValue(w1.hist, w1.wait[TopTx(e).sender]) >= 1 \/ WithdrawValue(TopTx(e).sender, w1) >= 2))
  => e.ok

\* (c) pays exactly the recorded share at the final rates, removes exactly the paid claims, nobody else's
C01_PaysExactly(w1, e, w2) ==
  Committed(e, "hub", "withdraw_unbonded") =>
    LET u == e.tx.sender
        S == {i \in 1..MaxBatch : w2.wait[u][i] # w1.wait[u][i]}
        sends == FxOfKind(e, "bank")
    IN /\ u \in Accts
       /\ Len(sends) = 1 /\ sends[1].from = "hub" /\ sends[1].to = u /\ sends[1].d = "usei"
       /\ sends[1].a = SumFn([i \in S |-> ClaimOn(w2.hist, w1.wait[u], i)], S)
       /\ \A i \in S : i <= Len(w2.hist) /\ w2.hist[i].released /\ w2.wait[u][i] = NoWait
       /\ \A i \in 1..Min(Len(w2.hist), MaxBatch) : w2.hist[i].released => w2.wait[u][i] = NoWait     \* nothing left to pay twice
       /\ \A v \in Accts \ {u} : w2.wait[v] = w1.wait[v]
       /\ HubCoins(w2) = HubCoins(w1) - sends[1].a
       /\ w2.hub.prevBal = HubCoins(w2)

\* (d) what is promised for a group of batches released together never exceeds what arrived; dust bound when clean
GroupClaims(w1, w2, G) == SumFn([u \in Accts |-> SumFn([i \in G |-> ClaimOn(w2.hist, w1.wait[u], i)], G \cap 1..MaxBatch)], Accts)
C01_ReleaseCovered(w1, e, w2) ==
  LET G == NewlyReleased(w1, w2) IN
  (G # {} /\ ~IsProbe(e)) => GroupClaims(w1, w2, G) <= HubCoins(w1) - w1.hub.prevBal
C01_ReleaseDust(w1, e, w2, g1) ==
  LET G == NewlyReleased(w1, w2)
      nclaims == Cardinality({p \in Accts \X (G \cap 1..MaxBatch) : w1.wait[p[1]][p[2]] # NoWait})
  IN (G # {} /\ ~IsProbe(e) /\ G \cap g1.slashed = {} /\ ~g1.donated /\ w1.chainUnbonding = w1.hubPar.unbonding)
       => (HubCoins(w1) - w1.hub.prevBal) - GroupClaims(w1, w2, G) <= 4 * Cardinality(G) + 2 * nclaims

\* (e) a withdrawal by v does not change what any other claimant would be paid
\* (when this withdrawal released batches, the other claimants' value before the step is the specification's prediction of
\* that release: two units of rounding per released batch are allowed; otherwise both sides are the recorded rates - exact)
C01_OrderIndependent(w1, e, w2) ==
  Committed(e, "hub", "withdraw_unbonded") =>
    LET tol == 2 * Cardinality(NewlyReleased(w1, w2)) IN
    \A u \in Accts \ {e.tx.sender} : Abs(WithdrawValue(u, w2) - WithdrawValue(u, w1)) <= tol

C01_Step(w1, e, w2, g1) ==
  /\ C01_WithdrawSucceeds(w1, e) /\ C01_PaysExactly(w1, e, w2) /\ C01_ReleaseCovered(w1, e, w2)
  /\ C01_ReleaseDust(w1, e, w2, g1) /\ C01_OrderIndependent(w1, e, w2)

-----------------------------------------------------------------------------
\* C02 - books never exceed delegations; bonds delegated in full; undelegation = book decrease
PricingCall(k) == k \in {"bond", "bond_for_st_sei", "bond_rewards", "check_slashing", "receive"}
PricingStep(e) == /\ e.ok /\ ~IsProbe(e) /\ IsExecEv(e)
                  /\ \/ (TopTx(e).c = "hub" /\ PricingCall(TopTx(e).msg.k))
                     \/ \E i \in 1..Len(e.fx) : e.fx[i].t = "wasm" /\ e.fx[i].to = "hub" /\ PricingCall(e.fx[i].k)
C02_BooksCovered(e, w2) == PricingStep(e) => Books(w2.hub) <= TotalDeleg(w2)
C02_BondDelegated(w1, e, w2) ==
  (e.ok /\ ~IsProbe(e) /\ (ExecIs(e, "hub", "bond") \/ ExecIs(e, "hub", "bond_for_st_sei"))) =>
    LET ds == FxOfKind(e, "delegate") pay == e.tx.funds[1].a IN
    /\ SumAmt(ds) = pay
    /\ \A i \in 1..Len(ds) : ds[i].from = "hub" /\ ds[i].v \in w1.reg.vals /\ ds[i].a > 0
    /\ TotalDeleg(w2) = TotalDeleg(w1) + pay
    /\ Len(FxOfKind(e, "undelegate")) = 0
\* any delegation the hub makes goes to a registered validator (also re-bonded rewards)
C02_DelegateRegistered(w1, e) ==
  (e.ok /\ ~IsProbe(e)) => \A i \in 1..Len(e.fx) : e.fx[i].t = "delegate" => e.fx[i].v \in w1.reg.vals
\* liquid coins of the hub move only by withdrawals (and by the environment)
C02_LiquidUntouched(w1, e, w2) ==
  (e.ok /\ ~IsProbe(e) /\ IsExecEv(e) /\ ~ExecIs(e, "hub", "withdraw_unbonded")) => HubCoins(w2) = HubCoins(w1)
C02_UndelegationBooked(w1, e, w2) ==
  (e.ok /\ ~IsProbe(e) /\ Len(w2.hist) = Len(w1.hist) + 1) =>
    LET us == FxOfKind(e, "undelegate") rec == w2.hist[Len(w2.hist)] IN
    /\ SumAmt(us) = Min(Books(w1.hub), TotalDeleg(w1)) - Books(w2.hub)        \* (books as recognised at that moment)
    /\ SumAmt(us) = MulDec(rec.bAmt, rec.bRate) + MulDec(rec.stAmt, rec.stRate)
    /\ TotalDeleg(w2) = TotalDeleg(w1) - SumAmt(us)
    /\ \A i \in 1..Len(us) : us[i].from = "hub" /\ us[i].a > 0
C02_NoStrayUndelegation(w1, e, w2) ==
  (e.ok /\ ~IsProbe(e) /\ Len(w2.hist) = Len(w1.hist)) => Len(FxOfKind(e, "undelegate")) = 0
C02_Step(w1, e, w2) ==
  /\ C02_BooksCovered(e, w2) /\ C02_BondDelegated(w1, e, w2) /\ C02_DelegateRegistered(w1, e)
  /\ C02_LiquidUntouched(w1, e, w2) /\ C02_UndelegationBooked(w1, e, w2) /\ C02_NoStrayUndelegation(w1, e, w2)

-----------------------------------------------------------------------------
\* C03 - reported rates = backing over claims; floor pricing in the pool's favour
C03_ReportedRates(w0, o) ==
  Staked(w0) =>
    /\ o.rep.rateB  = Rate(o.rep.bondB, ClaimsB(w0))
    /\ o.rep.rateSt = Rate(o.rep.bondSt, ClaimsSt(w0))
    \* (that the report equals the specification's own recomputation, Reported(w0), is conformance - KrpTrace - not C03:
    \* a different but admissible split of a slashing loss, C06, must not be reported here)
C03_Bond(w1, e, w2, o1) ==
  (e.ok /\ ~IsProbe(e) /\ ExecIs(e, "hub", "bond")) =>
    LET pay == e.tx.funds[1].a  u == e.tx.sender  r == o1.rep.rateB
        m0 == DivDec(pay, r)  minted == w2.bsei.supply - w1.bsei.supply
    IN /\ minted >= 1 /\ minted <= m0 /\ MulDec(minted, r) <= pay
       /\ (DecLe(w1.hubPar.thr, r) => minted = m0)
       /\ m0 - minted <= MulDec(m0, w1.hubPar.fee)
       /\ (u \in Accts => w2.bsei.bal[u] = w1.bsei.bal[u] + minted)
       /\ w2.stsei = w1.stsei
C03_BondSt(w1, e, w2, o1) ==
  (e.ok /\ ~IsProbe(e) /\ ExecIs(e, "hub", "bond_for_st_sei")) =>
    LET pay == e.tx.funds[1].a  u == e.tx.sender  r == o1.rep.rateSt
        minted == w2.stsei.supply - w1.stsei.supply
    IN /\ minted >= 1 /\ minted = DivDec(pay, r) /\ MulDec(minted, r) <= pay
       /\ (u \in Accts => w2.stsei.bal[u] = w1.stsei.bal[u] + minted)
       /\ w2.bsei = w1.bsei
C03_ConvertStB(w1, e, w2, o1) ==
  (e.ok /\ ~IsProbe(e) /\ IsHookTx(e, "stsei", "convert")) =>
    LET amt == e.tx.msg.amount  u == e.tx.sender
        den == MulDec(amt, o1.rep.rateSt)  m0 == DivDec(den, o1.rep.rateB)
        got == w2.bsei.supply - w1.bsei.supply
    IN /\ w2.stsei.supply = w1.stsei.supply - amt
       /\ got >= 1 /\ got <= m0 /\ m0 - got <= MulDec(m0, w1.hubPar.fee)
       /\ (DecLe(w1.hubPar.thr, o1.rep.rateB) => got = m0)
       /\ MulDec(got, o1.rep.rateB) <= den /\ den <= MulDec(amt, o1.rep.rateSt)
       /\ (u \in Accts => w2.bsei.bal[u] = w1.bsei.bal[u] + got)
C03_ConvertBSt(w1, e, w2, o1) ==
  (e.ok /\ ~IsProbe(e) /\ IsHookTx(e, "bsei", "convert")) =>
    LET amt == e.tx.msg.amount  u == e.tx.sender
        maxfee == MulDec(amt, w1.hubPar.fee)
        got == w2.stsei.supply - w1.stsei.supply
        hi == DivDec(MulDec(amt, o1.rep.rateB), o1.rep.rateSt)
        lo == DivDec(MulDec(IF amt > maxfee THEN amt - maxfee ELSE 0, o1.rep.rateB), o1.rep.rateSt)
    IN /\ w2.bsei.supply = w1.bsei.supply - amt
       /\ got >= 1 /\ got <= hi /\ got >= lo
       /\ (DecLe(w1.hubPar.thr, o1.rep.rateB) => got = hi)
       /\ MulDec(got, o1.rep.rateSt) <= MulDec(amt, o1.rep.rateB)
       /\ (u \in Accts => w2.stsei.bal[u] = w1.stsei.bal[u] + got)
\* a batch is undelegated for floor(requests x rate) coins, at the reported rate of that moment
C03_UndelegationPriced(w1, e, w2, o1) ==
  (e.ok /\ ~IsProbe(e) /\ Len(w2.hist) = Len(w1.hist) + 1) =>
    LET rec == w2.hist[Len(w2.hist)] IN
    /\ rec.stRate = o1.rep.rateSt
    /\ (IsHookTx(e, "stsei", "unbond") => rec.bRate = o1.rep.rateB)
    /\ DecLe(o1.rep.rateB, rec.bRate) \/ PoolZero("bsei", w1, o1.rep)
    /\ MulDec(rec.bAmt, rec.bRate) <= o1.rep.bondB \/ PoolZero("bsei", w1, o1.rep)
    \* the coins undelegated are the two floors, each pool's requests at that pool's rate (no joint rounding)
    /\ SumAmt(FxOfKind(e, "undelegate")) = MulDec(rec.bAmt, rec.bRate) + MulDec(rec.stAmt, rec.stRate)
C03_Step(w1, e, w2, o1) ==
  /\ C03_Bond(w1, e, w2, o1) /\ C03_BondSt(w1, e, w2, o1) /\ C03_ConvertStB(w1, e, w2, o1)
  /\ C03_ConvertBSt(w1, e, w2, o1) /\ C03_UndelegationPriced(w1, e, w2, o1)

-----------------------------------------------------------------------------
\* C04 - no user operation lowers a rate (reported rates; only environment slashing may)
C04_Step(w1, e, w2, o1, o2) ==
  (~EnvSlash(e) /\ ~IsProbe(e)) =>
    /\ (ClaimsB(w1) > 0 /\ ClaimsB(w2) > 0 /\ ~K2Guard("bsei", w1, o1.rep)) => DecLe(o1.rep.rateB, o2.rep.rateB)
    /\ (ClaimsSt(w1) > 0 /\ ClaimsSt(w2) > 0 /\ ~K2Guard("stsei", w1, o1.rep)) => DecLe(o1.rep.rateSt, o2.rep.rateSt)
    /\ (e.ok /\ (ExecIs(e, "hub", "update_global_index") \/ ExecIs(e, "hub", "bond_rewards")))
          => w2.stsei.supply = w1.stsei.supply /\ w2.bsei.supply = w1.bsei.supply

-----------------------------------------------------------------------------
\* C05 - peg fee bounded, never past the peg
FeePath(e) == ExecIs(e, "hub", "bond") \/ IsHookTx(e, "bsei", "unbond") \/ IsHookTx(e, "bsei", "convert") \/ IsHookTx(e, "stsei", "convert")
C05_UnbondFee(w1, e, w2, o1) ==
  (e.ok /\ ~IsProbe(e) /\ IsHookTx(e, "bsei", "unbond")) =>
    LET amt == e.tx.msg.amount  u == e.tx.sender  i == w1.batch.id
        cred == w2.wait[u][i].b - w1.wait[u][i].b
    IN /\ cred >= 0 /\ cred <= amt /\ amt - cred <= MulDec(amt, w1.hubPar.fee)
       /\ (DecLe(w1.hubPar.thr, o1.rep.rateB) => cred = amt)
C05_NoOvershoot(w1, e, w2, o1, o2) ==
  (e.ok /\ ~IsProbe(e) /\ FeePath(e) /\ DecLt(o1.rep.rateB, One)) => o2.rep.bondB <= ClaimsB(w2) + 2
C05_Step(w1, e, w2, o1, o2) == C05_UnbondFee(w1, e, w2, o1) /\ C05_NoOvershoot(w1, e, w2, o1, o2)
C05_ParamsInRange(w0) == DecLe(w0.hubPar.fee, One) /\ DecLe(w0.hubPar.thr, One)

-----------------------------------------------------------------------------
\* C06 - slashing recognised exactly, shared pro rata; a check never raises a pool
C06_Recognition(w0, o) ==
  LET tot == Books(w0.hub)  d == TotalDeleg(w0) IN
  /\ (tot > d /\ d > 0) =>
        /\ Books(o.rep) = d
        /\ Abs(o.rep.bondB - MulDivFloor(d, w0.hub.bondB, tot)) <= 2
        /\ Abs(o.rep.bondSt - MulDivFloor(d, w0.hub.bondSt, tot)) <= 2
  /\ (tot <= d) => o.rep.bondB = w0.hub.bondB /\ o.rep.bondSt = w0.hub.bondSt
  /\ o.rep.bondB <= w0.hub.bondB /\ o.rep.bondSt <= w0.hub.bondSt
\* an explicit check stores exactly what the query reported
C06_CheckStores(e, w2, o1) == Committed(e, "hub", "check_slashing") => (w2.hub.bondB = o1.rep.bondB /\ w2.hub.bondSt = o1.rep.bondSt)
\* loss on stake slashed while unbonding is spread over the batches released together in proportion to their size
Unb(rec, tok)  == IF tok = "b" THEN MulDec(rec.bAmt, rec.bRate) ELSE MulDec(rec.stAmt, rec.stRate)
Paid(rec, tok) == IF tok = "b" THEN MulDec(rec.bAmt, rec.bW) ELSE MulDec(rec.stAmt, rec.stW)
C06_LossProRata(w1, e, w2) ==
  LET G == NewlyReleased(w1, w2) IN
  (G # {} /\ ~IsProbe(e)) =>
    \A i, j \in G : \A tok \in {"b", "st"} :
      LET ui == Unb(w2.hist[i], tok) uj == Unb(w2.hist[j], tok)
          li == ui - Paid(w2.hist[i], tok)  lj == uj - Paid(w2.hist[j], tok)
      IN (li >= 0 /\ lj >= 0) => AbsCrossDiffLe(li, uj, lj, ui, 2 * (ui + uj))
\* ... and between the two token types of the group in proportion to their unbonded value
C06_LossPerType(w1, e, w2) ==
  LET G == NewlyReleased(w1, w2) IN
  (G # {} /\ ~IsProbe(e)) =>
    LET ub  == SumFn([i \in G |-> Unb(w2.hist[i], "b")], G)   ust == SumFn([i \in G |-> Unb(w2.hist[i], "st")], G)
        lb  == ub - SumFn([i \in G |-> Paid(w2.hist[i], "b")], G)
        lst == ust - SumFn([i \in G |-> Paid(w2.hist[i], "st")], G)
    IN (ub > 0 /\ ust > 0 /\ lb >= 0 /\ lst >= 0) => AbsCrossDiffLe(lb, ust, lst, ub, (2 * Cardinality(G) + 4) * (ub + ust))
\* ... and it is the loss that is spread, nothing else: what the group's batches are promised in total is what arrived for
\* them (unbonded value less the slashed coins, plus whatever else reached the hub since the last release), up to rounding
C06_LossTotal(w1, e, w2) ==
  LET G == NewlyReleased(w1, w2) IN
  (G # {} /\ ~IsProbe(e) /\ w1.chainUnbonding = w1.hubPar.unbonding) =>
    LET paid == SumFn([i \in G |-> Paid(w2.hist[i], "b") + Paid(w2.hist[i], "st")], G)
    IN Abs(paid - (HubCoins(w1) - w1.hub.prevBal)) <= 4 * Cardinality(G) + 4
\* Exploration, not a listed property (DESIGN.md section 11): without slashing and without unsolicited coins a released
\* group is promised its whole unbonded value.  Under E2 this follows from C01 (d) and the environment; with PayLag it fails.
E2_FullValue(w1, e, w2, g1) ==
  LET G == NewlyReleased(w1, w2)
      nclaims == Cardinality({p \in Accts \X (G \cap 1..MaxBatch) : w1.wait[p[1]][p[2]] # NoWait})
  IN (G # {} /\ ~IsProbe(e) /\ G \cap g1.slashed = {} /\ ~g1.donated /\ w1.chainUnbonding = w1.hubPar.unbonding)
       => SumFn([i \in G |-> Unb(w2.hist[i], "b") + Unb(w2.hist[i], "st")], G) - GroupClaims(w1, w2, G) <= 4 * Cardinality(G) + 2 * nclaims
\* the check inside every pricing operation (bond, re-bonded rewards, unbond, convert) recognises the slashing: afterwards
\* the stored books are the recognised ones (the State query has nothing left to recompute)
C06_PricingRecognises(e, w2, o2) == PricingStep(e) => (w2.hub.bondB = o2.rep.bondB /\ w2.hub.bondSt = o2.rep.bondSt)
C06_Step(w1, e, w2, o1, o2) == /\ C06_CheckStores(e, w2, o1) /\ C06_LossProRata(w1, e, w2) /\ C06_LossPerType(w1, e, w2) /\ C06_LossTotal(w1, e, w2)
                               /\ C06_PricingRecognises(e, w2, o2)

-----------------------------------------------------------------------------
\* C07 - every unbonded token is in exactly one batch claim of its sender
BatchTotal(w0, i, f) == IF i = w0.batch.id THEN (IF f = "b" THEN w0.batch.reqB ELSE w0.batch.reqSt)
                        ELSE IF i <= Len(w0.hist) THEN (IF f = "b" THEN w0.hist[i].bAmt ELSE w0.hist[i].stAmt) ELSE 0
C07_ClaimsSumToBatch(w0, g0) ==
  \A i \in 1..MaxBatch :
    /\ SumFn([u \in Accts |-> w0.wait[u][i].b], Accts) + g0.paid[i].b = BatchTotal(w0, i, "b")
    /\ SumFn([u \in Accts |-> w0.wait[u][i].st], Accts) + g0.paid[i].st = BatchTotal(w0, i, "st")
C07_UnbondRecorded(w1, e, w2) ==
  /\ (e.ok /\ ~IsProbe(e) /\ IsHookTx(e, "stsei", "unbond")) =>
        LET amt == e.tx.msg.amount  u == e.tx.sender  i == w1.batch.id IN
        /\ w2.stsei.supply = w1.stsei.supply - amt
        /\ u \in Accts /\ w2.wait[u][i] = [b |-> w1.wait[u][i].b, st |-> w1.wait[u][i].st + amt]
        /\ \A v \in Accts, j \in 1..MaxBatch : (v # u \/ j # i) => w2.wait[v][j] = w1.wait[v][j]
        /\ w2.stsei.bal[HookOwner(e)] = w1.stsei.bal[HookOwner(e)] - amt
  /\ (e.ok /\ ~IsProbe(e) /\ IsHookTx(e, "bsei", "unbond")) =>
        LET amt == e.tx.msg.amount  u == e.tx.sender  i == w1.batch.id IN
        /\ w2.bsei.supply = w1.bsei.supply - amt
        /\ u \in Accts /\ w2.wait[u][i].st = w1.wait[u][i].st
        /\ \A v \in Accts, j \in 1..MaxBatch : (v # u \/ j # i) => w2.wait[v][j] = w1.wait[v][j]
        /\ w2.bsei.bal[HookOwner(e)] = w1.bsei.bal[HookOwner(e)] - amt
\* claims shrink only by their owner's successful withdrawal of a released batch; they grow only through the tokens
C07_ClaimsOnlyByOwner(w1, e, w2) ==
  ~ExecIs(e, "hub", "migrate_unbond_wait_list") =>
    \A u \in Accts, i \in 1..MaxBatch :
      /\ (w2.wait[u][i].b < w1.wait[u][i].b \/ w2.wait[u][i].st < w1.wait[u][i].st)
           => Committed(e, "hub", "withdraw_unbonded") /\ e.tx.sender = u /\ i <= Len(w2.hist) /\ w2.hist[i].released
      /\ (w2.wait[u][i].b > w1.wait[u][i].b \/ w2.wait[u][i].st > w1.wait[u][i].st)
           => e.ok /\ (IsHookTx(e, "bsei", "unbond") \/ IsHookTx(e, "stsei", "unbond")) /\ e.tx.sender = u /\ i = w1.batch.id
\* the WithdrawableUnbonded query reports the claims on batches older than the unbonding period at their current rates
C07_QueriesFaithful(w0, o) == \A u \in Accts : o.withdrawable[u] = QueryWithdrawable(w0, u)
\* the migration of legacy wait-list entries moves claims, it never creates one: per account and batch, what is recorded in
\* the new list plus what is still in the legacy list does not grow (the code's overwrite of an existing entry may lose, not win)
LegacySum(w0, u, i) == LET S == {j \in 1..Len(w0.legacy) : w0.legacy[j].u = u /\ w0.legacy[j].i = i} IN SumFn([j \in S |-> w0.legacy[j].amt], S)
C07_MigrationMovesOnly(w1, e, w2) ==
  Committed(e, "hub", "migrate_unbond_wait_list") =>
    \A u \in Accts, i \in 1..MaxBatch :
      /\ w2.wait[u][i].b + LegacySum(w2, u, i) <= w1.wait[u][i].b + LegacySum(w1, u, i)
      /\ w2.wait[u][i].st = w1.wait[u][i].st
C07_Step(w1, e, w2) == C07_UnbondRecorded(w1, e, w2) /\ C07_ClaimsOnlyByOwner(w1, e, w2) /\ C07_MigrationMovesOnly(w1, e, w2)

-----------------------------------------------------------------------------
\* C08 - time lock; batch lifecycle only moves forward
C08_Shape(w0) ==
  /\ w0.batch.id = Len(w0.hist) + 1
  /\ \A i \in 1..Len(w0.hist) : w0.hist[i].id = i
  /\ \A i, j \in 1..Len(w0.hist) : (i < j /\ w0.hist[j].released) => w0.hist[i].released
  /\ w0.hub.lastProc = Cardinality({i \in 1..Len(w0.hist) : w0.hist[i].released})
C08_Step(w1, e, w2) ==
  ~IsProbe(e) =>
  /\ \A i \in NewlyReleased(w1, w2) :
        /\ i <= Len(w1.hist)                                     \* released strictly after it was undelegated
        /\ w1.hist[i].time + w1.hubPar.unbonding <= w1.now       \* the unbonding period has fully elapsed
        /\ Committed(e, "hub", "withdraw_unbonded")
  /\ Len(w2.hist) \in {Len(w1.hist), Len(w1.hist) + 1}
  /\ (Len(w2.hist) = Len(w1.hist) + 1) =>
        /\ w1.now - w1.hub.lastUnb > w1.hubPar.epoch
        /\ w2.hub.lastUnb = w1.now
        /\ ~w2.hist[Len(w2.hist)].released /\ w2.hist[Len(w2.hist)].time = w1.now
        /\ w2.hist[Len(w2.hist)].bW = w2.hist[Len(w2.hist)].bRate /\ w2.hist[Len(w2.hist)].stW = w2.hist[Len(w2.hist)].stRate
  /\ \A i \in 1..Len(w1.hist) :
        /\ w1.hist[i].released => w2.hist[i] = w1.hist[i]
        /\ w2.hist[i].id = w1.hist[i].id /\ w2.hist[i].time = w1.hist[i].time
        /\ w2.hist[i].bAmt = w1.hist[i].bAmt /\ w2.hist[i].stAmt = w1.hist[i].stAmt
        /\ w2.hist[i].bRate = w1.hist[i].bRate /\ w2.hist[i].stRate = w1.hist[i].stRate
        /\ (~w2.hist[i].released => w2.hist[i] = w1.hist[i])
  /\ w2.hub.lastProc >= w1.hub.lastProc
  /\ w2.now >= w1.now
  \* a claim is consumed (paid) only by a withdrawal, and only when its batch was undelegated a full period ago and is released
  /\ \A u \in Accts : \A i \in 1..MaxBatch :
        (w2.wait[u][i] # w1.wait[u][i] /\ (w2.wait[u][i].b < w1.wait[u][i].b \/ w2.wait[u][i].st < w1.wait[u][i].st)) =>
          /\ Committed(e, "hub", "withdraw_unbonded") /\ e.tx.sender = u
          /\ i <= Len(w1.hist) /\ w1.hist[i].time + w1.hubPar.unbonding <= w1.now /\ w2.hist[i].released

-----------------------------------------------------------------------------
\* C09 - holders can always exit; exits do not depend on the reward plumbing
UnbondAttempt(e) == (IsHookTx(e, "bsei", "unbond") \/ IsHookTx(e, "stsei", "unbond")) /\ TopTx(e).msg.k = "send"
C09_CanUnbond(w1, e, o1) ==
  (UnbondAttempt(e) /\ ~w1.hubPar.paused /\ TotalDeleg(w1) > 0 /\ ~K2Any(w1, o1.rep)
     /\ TopTx(e).sender \in Accts /\ TopTx(e).msg.amount >= 1
     /\ TopTx(e).msg.amount <= w1[TopTx(e).c].bal[TopTx(e).sender]
     /\ w1.batch.id <= MaxBatch)
  => e.ok
C09_UndelegatedAfterEpoch(w1, e, w2) ==
  (e.ok /\ ~IsProbe(e) /\ UnbondAttempt(e) /\ w1.now - w1.hub.lastUnb > w1.hubPar.epoch)
    => Len(w2.hist) = Len(w1.hist) + 1 /\ w2.batch.reqB = 0 /\ w2.batch.reqSt = 0
\* exits read nothing of the swap / oracle stubs: the specification's outcome is the same under every stub mode
ExitTx(tx) == tx.k = "exec" /\ \/ tx.c \in {"bsei", "stsei"}
                               \/ (tx.c = "hub" /\ tx.msg.k \in {"bond", "bond_for_st_sei", "withdraw_unbonded", "check_slashing"})
                               \/ (tx.c = "reward" /\ tx.msg.k = "claim_rewards")
ExtModes == {[swap |-> s, oracle |-> o] : s \in {"ok", "fail"}, o \in {"ok", "fail", "zero"}}
\* SpecLevel: TRUE when the behaviour under judgement is the specification's own (model checking, simulation): the statement
\* is then about Apply itself.  Trace validation overrides it with FALSE: there the implementation is compared with the
\* implementation (e.same, logged by the harness) - comparing it with the specification's outcome would be conformance, not C09.
SpecLevel    == TRUE
SpecLevelOff == FALSE
C09_ExitsIgnoreStubs(w1, e, w2) ==
  (ExitTx(TopTx(e)) /\ ~IsProbe(e)) =>
    /\ e.same
    /\ SpecLevel =>
         \A m \in ExtModes :
           LET wf == [w1 EXCEPT !.ext.swap = m.swap, !.ext.oracle = m.oracle]
               r  == Apply(e.tx, wf)
           IN r.ok = e.ok /\ r.fx = e.fx /\ r.w = [w2 EXCEPT !.ext.swap = m.swap, !.ext.oracle = m.oracle]
C09_Step(w1, e, w2, o1) == /\ C09_CanUnbond(w1, e, o1) /\ C09_UndelegatedAfterEpoch(w1, e, w2) /\ C01_WithdrawSucceeds(w1, e)
                       /\ C09_ExitsIgnoreStubs(w1, e, w2)
=============================================================================
