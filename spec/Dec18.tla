------------------------------- MODULE Dec18 -------------------------------
(* cosmwasm_std::Decimal / cosmwasm_bignumber::Decimal256 restricted to the operating envelope:
   unsigned fixed point with 18 fractional digits; every operation floors.
   A Decimal is a triple <<a,b,c>> of naturals, b,c < 10^9, denoting the atomics
   a*10^18 + b*10^9 + c.  The definitions in the first block are the *meaning*; TLC integers are
   32 bit, so TLC evaluates exactly these eight operators through the Java class Dec18 (BigInteger,
   TLC's module-override mechanism).  Arguments and results fit 31 bits per limb; intermediates
   are unbounded.  Everything else is plain TLA+.                                           *)
EXTENDS Integers
E9  == 1000000000
E18 == E9 * E9
\* @type: (<<Int, Int, Int>>) => Int;
Atomics(d) == d[1] * E18 + d[2] * E9 + d[3]
\* @type: (Int) => <<Int, Int, Int>>;
ToDec(v)   == << v \div E18, (v % E18) \div E9, v % E9 >>
\* @type: <<Int, Int, Int>>;
One  == <<1, 0, 0>>
\* @type: <<Int, Int, Int>>;
Zero == <<0, 0, 0>>
\* @type: (Int) => <<Int, Int, Int>>;
DecOfInt(n) == <<n, 0, 0>>
\* ---- overridden in Java (Dec18.class) -------------------------------------------------
\* @type: (Int, Int) => <<Int, Int, Int>>;
DecFromRatio(n, d)   == ToDec((n * E18) \div d)               \* Decimal::from_ratio (d # 0)
\* @type: (Int, <<Int, Int, Int>>) => Int;
MulDec(x, dec)       == (x * Atomics(dec)) \div E18            \* Uint128 * Decimal, Uint256 * Decimal256
\* @type: (Int, <<Int, Int, Int>>) => Int;
DivDec(x, dec)       == (x * E18) \div Atomics(dec)            \* hub math::decimal_division (dec # 0)
\* @type: (<<Int, Int, Int>>, Int) => <<Int, Int, Int>>;
DecMulInt(dec, n)    == ToDec(Atomics(dec) * n)                \* Decimal256 * Decimal256::from_ratio(n,1)
\* @type: (<<Int, Int, Int>>) => <<Int, Int, Int>>;
DecInv(dec)          == ToDec((E18 * E18) \div Atomics(dec))   \* Fraction::inv (dec # 0)
\* @type: (Int, Int, Int) => Int;
MulDivFloor(x, n, d) == (x * n) \div d                         \* Uint128::multiply_ratio (d # 0)
\* @type: (Int, Int, Int) => <<Int, Int, Int>>;
DecFromRatio2(a, b, d) == ToDec((a * b * E18) \div d)          \* from_ratio(a*b, d) without forming a*b in 32 bits (ghosts only)
\* @type: (Int, Int, Int, Int, Int) => Bool;
AbsCrossDiffLe(a, b, c, d, k) == (IF a * b >= c * d THEN a * b - c * d ELSE c * d - a * b) <= k   \* |a*b - c*d| <= k without 32-bit products
\* ---- pure TLA+ ------------------------------------------------------------------------
\* @type: (<<Int, Int, Int>>) => Bool;
IsZeroDec(x) == x[1] = 0 /\ x[2] = 0 /\ x[3] = 0
\* @type: (<<Int, Int, Int>>, <<Int, Int, Int>>) => Bool;
DecLt(x, y) == \/ x[1] < y[1]
               \/ x[1] = y[1] /\ x[2] < y[2]
               \/ x[1] = y[1] /\ x[2] = y[2] /\ x[3] < y[3]
\* @type: (<<Int, Int, Int>>, <<Int, Int, Int>>) => Bool;
DecLe(x, y) == x = y \/ DecLt(x, y)
\* @type: (<<Int, Int, Int>>, <<Int, Int, Int>>) => <<Int, Int, Int>>;
DecMin(x, y) == IF DecLt(y, x) THEN y ELSE x
\* @type: (<<Int, Int, Int>>, <<Int, Int, Int>>) => <<Int, Int, Int>>;
DecAdd(x, y) == LET c == x[3] + y[3]
                    b == x[2] + y[2] + (c \div E9)
                IN << x[1] + y[1] + (b \div E9), b % E9, c % E9 >>
\* @type: (<<Int, Int, Int>>, <<Int, Int, Int>>) => <<Int, Int, Int>>;
DecSub(x, y) == LET c  == x[3] - y[3]                          \* requires DecLe(y, x)
                    b  == x[2] - y[2] - (IF c < 0 THEN 1 ELSE 0)
                IN << x[1] - y[1] - (IF b < 0 THEN 1 ELSE 0),
                      IF b < 0 THEN b + E9 ELSE b, IF c < 0 THEN c + E9 ELSE c >>
\* @type: (<<Int, Int, Int>>) => Int;
DecFloor(x) == x[1]
\* @type: (<<Int, Int, Int>>) => <<Int, Int, Int>>;
DecFrac(x)  == <<0, x[2], x[3]>>
\* @type: (<<Int, Int, Int>>) => Bool;
IsDec(x) == x[1] >= 0 /\ x[2] >= 0 /\ x[2] < E9 /\ x[3] >= 0 /\ x[3] < E9
=============================================================================
