------------------------------ MODULE PropDefs ------------------------------
(* The formulas of Props / PropsB bound to the variables <<w, g, ev, obs>>: state predicates as
   invariants, step predicates as action properties.  Used unchanged by every MC_* configuration
   and by KrpTrace (where the variables carry the implementation's own states).  A "reset" event
   (start of a new recorded run) is not a step of the system.                                 *)
EXTENDS PropsB, DecConsts

IsStep == ev'.tx.k # "reset"

Inv_C01 == C01_Solvent(w)
Inv_C03 == C03_ReportedRates(w, obs)
Inv_C05 == C05_ParamsInRange(w)
Inv_C06 == C06_Recognition(w, obs)
\* (C07_QueriesFaithful - the WithdrawableUnbonded query - and C14_AccruedQuery - the AccruedRewards query - are part of the
\* conformance relation, obs = ObsOf(w) in KrpTrace, not of the properties: neither statement names these two queries)
Inv_C07 == C07_ClaimsSumToBatch(w, g)
Inv_C08 == C08_Shape(w)
Inv_C14 == C14_Solvent(w, g)
Inv_C15 == C15_Proportional(w, g)
Inv_C16 == C16_Mirror(w)
Inv_C17 == C17_KeeperRate(w)
Inv_C18 == C18_Conserved(w)
Inv_C20 == C20_InRange(w)
Act_C01 == [][IsStep => C01_Step(w, ev', w', g)]_vars
\* C01 without the ghost-dependent dust bound (seeded exploration starts with fresh ghosts)
Act_C01s == [][IsStep => (C01_WithdrawSucceeds(w, ev') /\ C01_PaysExactly(w, ev', w') /\ C01_ReleaseCovered(w, ev', w') /\ C01_OrderIndependent(w, ev', w'))]_vars
Act_C02 == [][IsStep => C02_Step(w, ev', w')]_vars
Act_C03 == [][IsStep => C03_Step(w, ev', w', obs)]_vars
Act_C04 == [][IsStep => C04_Step(w, ev', w', obs, obs')]_vars
Act_C05 == [][IsStep => C05_Step(w, ev', w', obs, obs')]_vars
Act_C06 == [][IsStep => C06_Step(w, ev', w', obs, obs')]_vars
Act_C07 == [][IsStep => C07_Step(w, ev', w')]_vars
Act_C08 == [][IsStep => C08_Step(w, ev', w')]_vars
Act_C09 == [][IsStep => C09_Step(w, ev', w', obs)]_vars
Act_C10 == [][IsStep => C10_Step(w, ev', w')]_vars
Act_C11 == [][IsStep => C11_Step(w, ev', w', obs')]_vars
Act_C13 == [][IsStep => (C13_Step(w, ev', w', obs, obs') /\ C02_DelegateRegistered(w, ev'))]_vars   \* incl.: later bonds go to registered validators only
Act_C14 == [][IsStep => C14_Claim(w, ev', w')]_vars
Act_C15 == [][IsStep => C15_Step(w, ev', w')]_vars
Act_C17 == [][IsStep => C17_Step(w, ev', w')]_vars
Act_C18 == [][IsStep => C18_Step(w, ev', w')]_vars
Act_C19 == [][IsStep => C19_Step(w, ev', w', obs, obs')]_vars
Act_C20 == [][IsStep => C20_Step(w, ev', w')]_vars
\* exploration formulas (./check explore ...), not listed properties
Act_E2  == [][IsStep => E2_FullValue(w, ev', w', g)]_vars
=============================================================================
