------------------------------- MODULE MC_Auth -------------------------------
(* Every message variant of every contract crossed with every class of sender, in fresh and in
   evolved principal configurations (ownership hand-overs, config updates, pause cycles, legacy
   wait-list entries).  Decides C10, C11, C20 (and the authorisation half of C18).             *)
EXTENDS Prefix, TLCExt

CONSTANTS Senders, MaxSteps, EmitLen, OnlyOk, AuthDepth

U1 == CHOOSE u \in Users : TRUE
U2 == CHOOSE u \in Users : u # U1
NoExp == [k |-> "none", v |-> 0]
OptAddr == {"", "owner2", "usr1"}
DecVals == {NoneDec, D0, D05, D1, <<1, 0, 1>>, <<2, 0, 0>>}

Params(e, u, f, t, r, p) == [k |-> "update_params", epoch |-> e, unbonding |-> u, fee |-> f, thr |-> t, rdenom |-> r, paused |-> p]
HubCfgMsg(d, r, b, s, a, rw, up) == [k |-> "update_config", dispatcher |-> d, registry |-> r, bsei |-> b, stsei |-> s, airdrop |-> a, rewards |-> rw, updater |-> up]
NoHubCfg == HubCfgMsg("", "", "", "", "", "", "")
DispCfgMsg(h, r, sd, bd, ka, kr) == [k |-> "update_config", hub_contract |-> h, bsei_reward_contract |-> r, stsei_reward_denom |-> sd,
                                     bsei_reward_denom |-> bd, krp_keeper_address |-> ka, krp_keeper_rate |-> kr]

HubMsgs ==
  {[k |-> kk] : kk \in {"bond", "bond_for_st_sei", "bond_rewards", "withdraw_unbonded", "check_slashing", "accept_ownership"}}
  \cup {[k |-> "set_owner", new_owner_addr |-> a] : a \in {"owner2", "usr1"}}
  \cup {[k |-> "update_global_index", hooks |-> h] : h \in {0, 1}}
  \cup {Params(NoneInt, NoneInt, f, NoneDec, "", p) : f \in DecVals, p \in {"", "t", "f"}}
  \cup {Params(3, NoneInt, NoneDec, t, "", "f") : t \in DecVals}
  \cup {Params(NoneInt, 6, NoneDec, NoneDec, "usei", "")}
  \cup {NoHubCfg, [NoHubCfg EXCEPT !.dispatcher = "usr1"], [NoHubCfg EXCEPT !.bsei = "usr1"], [NoHubCfg EXCEPT !.stsei = "usr1"],
        [NoHubCfg EXCEPT !.airdrop = "airdrop"], [NoHubCfg EXCEPT !.registry = "usr1"], [NoHubCfg EXCEPT !.rewards = "usr1"],
        [NoHubCfg EXCEPT !.updater = "usr1"], HubCfgMsg("dispatcher", "registry", "bsei", "stsei", "", "reward", ""),
        HubCfgMsg("sink", "", "bsei", "stsei", "", "reward", ""), [NoHubCfg EXCEPT !.dispatcher = "sink"], [NoHubCfg EXCEPT !.registry = "sink"],
        [NoHubCfg EXCEPT !.airdrop = "sink"]}
  \cup {[k |-> "receive", sender |-> U1, amount |-> 1, hook |-> h] : h \in {"unbond", "convert"}}
  \cup {[k |-> "swap_hook", airdrop_token_contract |-> "airtoken", airdrop_swap_contract |-> "airpair"],
        [k |-> "claim_airdrop", airdrop_token_contract |-> "airtoken", airdrop_contract |-> "airdropc", airdrop_swap_contract |-> "airpair"],
        [k |-> "redelegate_proxy", src |-> 1, redelegations |-> <<[v |-> 1, a |-> 1]>>],
        [k |-> "migrate_unbond_wait_list", limit |-> NoneInt], [k |-> "migrate_unbond_wait_list", limit |-> 1]}
TokMsgs(t) ==
  {[k |-> "transfer", recipient |-> U2, amount |-> 1], [k |-> "burn", amount |-> 1],
   [k |-> "send", contract |-> "hub", amount |-> 1, hook |-> "unbond"],
   [k |-> "mint", recipient |-> U1, amount |-> 2],
   [k |-> "increase_allowance", spender |-> U2, amount |-> 2, expires |-> NoExp],
   [k |-> "decrease_allowance", spender |-> U2, amount |-> 1, expires |-> NoExp],
   [k |-> "transfer_from", owner |-> U1, recipient |-> U2, amount |-> 1],
   [k |-> "burn_from", owner |-> U1, amount |-> 1],
   [k |-> "send_from", owner |-> U1, contract |-> "hub", amount |-> 1, hook |-> "unbond"]}
  \cup (IF t = "stsei" THEN {[k |-> "update_minter", new_minter |-> a] : a \in {"", "usr1"}}
                            \cup {[k |-> "update_marketing", marketing |-> a] : a \in {"-", "", "usr1"}}
                            \cup {[k |-> "upload_logo"]}
        ELSE {})
RewMsgs ==
  {[k |-> "claim_rewards", recipient |-> ""], [k |-> "accept_ownership"], [k |-> "swap_to_reward_denom"], [k |-> "update_global_index"],
   [k |-> "increase_balance", address |-> U1, amount |-> 1], [k |-> "decrease_balance", address |-> U1, amount |-> 1],
   [k |-> "update_swap_denom", swap_denom |-> "ufor", is_add |-> TRUE], [k |-> "update_swap_denom", swap_denom |-> "ufor", is_add |-> FALSE]}
  \cup {[k |-> "set_owner", new_owner_addr |-> a] : a \in {"owner2", "usr1"}}
  \cup {[k |-> "update_config", hub_contract |-> h, reward_denom |-> d, swap_contract |-> ""] : h \in {"", "usr1"}, d \in {"", "usei"}}
DispMsgs ==
  {[k |-> "swap_to_reward_denom", bsei_total_bonded |-> 10, stsei_total_bonded |-> 10], [k |-> "dispatch_rewards"], [k |-> "accept_ownership"],
   [k |-> "update_swap_contract", swap_contract |-> "usr1"], [k |-> "update_oracle_contract", oracle_contract |-> "usr1"],
   [k |-> "update_swap_denom", swap_denom |-> "ufor", is_add |-> FALSE], [k |-> "update_swap_denom", swap_denom |-> "ufor", is_add |-> TRUE]}
  \cup {[k |-> "set_owner", new_owner_addr |-> a] : a \in {"owner2", "usr1"}}
  \cup {DispCfgMsg("", "", "", "", "", r) : r \in DecVals}
  \cup {DispCfgMsg("", "sink", "", "", "", NoneDec), DispCfgMsg("sink", "", "", "", "", NoneDec)}
  \cup {DispCfgMsg("usr1", "", "", "", "", NoneDec), DispCfgMsg("", "usr1", "", "", "", NoneDec), DispCfgMsg("", "", "usei", "", "", NoneDec),
        DispCfgMsg("", "", "kusd", "", "", D05), DispCfgMsg("", "", "", "usei", "", NoneDec), DispCfgMsg("", "", "", "", "usr1", NoneDec)}
RegMsgs ==
  {[k |-> "add_validator", validator |-> v] : v \in Vals} \cup {[k |-> "remove_validator", address |-> v] : v \in Vals}
  \cup {[k |-> "redelegations", address |-> v] : v \in Vals}
  \cup {[k |-> "update_config", hub_contract |-> h] : h \in {"", "usr1"}}
  \cup {[k |-> "set_owner", new_owner_addr |-> a] : a \in {"owner2", "usr1"}} \cup {[k |-> "accept_ownership"]}

MsgsOf(c) == CASE c = "hub" -> HubMsgs [] c = "bsei" -> TokMsgs("bsei") [] c = "stsei" -> TokMsgs("stsei")
               [] c = "reward" -> RewMsgs [] c = "dispatcher" -> DispMsgs [] c = "registry" -> RegMsgs
FundsOf(c, m) == IF c = "hub" /\ m.k \in {"bond", "bond_for_st_sei", "bond_rewards"} THEN {<<>>, <<Coin("usei", 2)>>} ELSE {<<>>}
\* the specification keeps allowances only for the modelled token accounts
SendersOf(c, m) == IF c \in {"bsei", "stsei"} /\ m.k \in {"increase_allowance", "decrease_allowance"} THEN Senders \cap Accts ELSE Senders
AuthTxs == UNION { UNION { {ExecTx(s, c, m, f) : s \in SendersOf(c, m), f \in FundsOf(c, m)} : m \in MsgsOf(c) }
                   : c \in {"hub", "bsei", "stsei", "reward", "dispatcher", "registry"} }
EnvTxs == {[k |-> "set_legacy", entries |-> e] : e \in {<<>>, <<[u |-> U1, i |-> 1, amt |-> 4]>>, <<[u |-> U1, i |-> 1, amt |-> 4], [u |-> U2, i |-> 2, amt |-> 3]>>}}
          \cup {[k |-> "instantiate", c |-> "hub", sender |-> s, epoch |-> 2, unbonding |-> 5, fee |-> f, thr |-> t]
                  : s \in {"owner2"}, f \in DecVals \ {NoneDec}, t \in {D05, <<2, 0, 0>>}}
          \cup {[k |-> "instantiate", c |-> "dispatcher", sender |-> "owner2", rate |-> r] : r \in DecVals \ {NoneDec}}
          \cup {[k |-> "instantiate", c |-> "dispatcher", sender |-> "owner2", rate |-> D05, stdenom |-> ""]}
          \cup {EvAdvance(3)}

Next == \E tx \in AuthTxs \cup EnvTxs : IF OnlyOk THEN StepOk(tx) ELSE Step(tx)

Bound == g.steps <= MaxSteps
View == w
HuntBound == TRUE
EmitTrace == TLCGet("level") # EmitLen \/ PrintT(<<"TRACE", ToJson([i \in 1..Len(Trace) |-> [w |-> Trace[i].w, ev |-> Trace[i].ev, obs |-> Trace[i].obs]])>>)
=============================================================================
