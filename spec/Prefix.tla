------------------------------- MODULE Prefix -------------------------------
(* Initial states reached by a fixed prefix of events.  The prefix is a JSON list of events (the
   same file is executed by the harness before every replayed behaviour), so the initial state is
   reachable by construction and identical on both sides.                                     *)
EXTENDS PropDefs, Json, IOUtils

PrefixEvents == IF "PREFIX" \in DOMAIN IOEnv THEN JsonDeserialize(IOEnv.PREFIX) ELSE <<>>

RECURSIVE RunSeq(_, _, _)
RunSeq(w0, txs, i) == IF i > Len(txs) THEN w0 ELSE RunSeq(Apply(txs[i], w0).w, txs, i + 1)
PrefixWorld == RunSeq(InitWorld, PrefixEvents, 1)

InitP == w = PrefixWorld /\ g = InitGhost /\ ev = InitEv /\ obs = ObsOf(PrefixWorld)
=============================================================================
