----------------------------- MODULE MC_Dispatch -----------------------------
(* The dispatcher on a grid: reward balances (incl. zero and one-sided), bonded amounts, oracle
   prices over several orders of magnitude, keeper rates in [0,1]; SwapToRewardDenom and
   DispatchRewards called by the hub principal, and the whole UpdateGlobalIndex cascade.
   Decides C17 and C19.                                                                      *)
EXTENDS Prefix, TLCExt

CONSTANTS FundAmts, Prices, Rates, BondedPairs, MaxSteps, EmitLen, OnlyOk

PriceOf(p) == CASE p = "D0001" -> D0001 [] p = "D03" -> D03 [] p = "D075" -> D075 [] p = "D1" -> D1 [] p = "D15" -> D15 [] p = "D1000" -> D1000
RateOf(r)  == CASE r = "D0" -> D0 [] r = "D005" -> D005 [] r = "D03" -> D03 [] r = "D1" -> D1
PairOf(i) == CASE i = 1 -> <<1, 1>> [] i = 2 -> <<1, 3>> [] i = 3 -> <<10, 1>> [] i = 4 -> <<0, 5>> [] i = 5 -> <<5, 0>> [] i = 6 -> <<7, 7>> [] i = 7 -> <<1000, 1>> [] i = 8 -> <<0, 0>>
TxSwap(bB, stB) == ExecTx("hub", "dispatcher", [k |-> "swap_to_reward_denom", bsei_total_bonded |-> bB, stsei_total_bonded |-> stB], <<>>)
TxDispatch == ExecTx("hub", "dispatcher", [k |-> "dispatch_rewards"], <<>>)
TxKeeperRate(r) == ExecTx("owner", "dispatcher", [k |-> "update_config", hub_contract |-> "", bsei_reward_contract |-> "", stsei_reward_denom |-> "",
                                                  bsei_reward_denom |-> "", krp_keeper_address |-> "", krp_keeper_rate |-> r], <<>>)
Txs ==
  {EvFund("dispatcher", d, a) : d \in {"usei", "kusd"}, a \in FundAmts} \cup {EvFund("dispatcher", "ufor", 2)}
  \cup {EvAccrue(v, d, a) : v \in Vals, d \in {"usei", "kusd"}, a \in FundAmts}
  \cup {TxSwap(PairOf(p)[1], PairOf(p)[2]) : p \in BondedPairs} \cup {TxDispatch, TxUpdateGlobal}
  \cup {[k |-> "set_ext", swap |-> "ok", oracle |-> "ok", price |-> PriceOf(p)] : p \in Prices}
  \cup {TxKeeperRate(RateOf(r)) : r \in Rates}
  \cup {TxClaim(u) : u \in Users}

Next == \E tx \in Txs : IF OnlyOk THEN StepOk(tx) ELSE Step(tx)
Bound == g.steps <= MaxSteps
View == w
HuntBound == /\ \A a \in BankAccts, d \in Denoms : w.bank[a][d] <= 1000000
             /\ TotalDeleg(w) <= 1000000      \* price flips compound by 1000x per swap: keep simulation inside TLC's 31-bit integers
EmitTrace == TLCGet("level") # EmitLen \/ PrintT(<<"TRACE", ToJson([i \in 1..Len(Trace) |-> [w |-> Trace[i].w, ev |-> Trace[i].ev, obs |-> Trace[i].obs]])>>)
=============================================================================
