------------------------------ MODULE Distrib ------------------------------
(* basset_sei_validators_registry/src/common.rs transcribed loop by loop.
   A validator list is a sequence of current delegations (the caller fixes the order).   *)
EXTENDS Util

\* calculate_delegations(amount, validators) -> [ok, rem, plan]
CalcDelegations(amount, d) ==
  IF Len(d) = 0 THEN [ok |-> FALSE, rem |-> amount, plan |-> <<>>]
  ELSE
  LET n   == Len(d)
      tot == SumSeq(d) + amount
      per == tot \div n
      rem == tot % n
      RECURSIVE Go(_, _, _)
      Go(i, left, plan) ==
        IF i > n THEN [rem |-> left, plan |-> plan]
        ELSE LET target == per + (IF i <= rem THEN 1 ELSE 0)
             IN IF target < d[i] THEN Go(i + 1, left, Append(plan, 0))
                ELSE LET to == Min(target - d[i], left)
                     IN IF left - to = 0                               \* `break`
                        THEN [rem |-> 0, plan |-> Append(plan, to) \o [j \in 1..(n - i) |-> 0]]
                        ELSE Go(i + 1, left - to, Append(plan, to))
      r == Go(1, amount, <<>>)
  IN [ok |-> TRUE, rem |-> r.rem, plan |-> r.plan]

\* calculate_undelegations(amount, validators) -> [ok, plan, passes]; Fuel bounds the `while`
UndelegFuel == 6
CalcUndelegations(amount, d0) ==
  IF Len(d0) = 0 \/ amount > SumSeq(d0) THEN [ok |-> FALSE, plan |-> <<>>, passes |-> 0]
  ELSE
  LET n == Len(d0)
      RECURSIVE Pass(_, _, _, _, _, _)
      Pass(i, left, d, plan, per, rem) ==               \* one run of the `for` inside the `while`
        IF i > n \/ left = 0 THEN [left |-> left, d |-> d, plan |-> plan]
        ELSE LET target == per + (IF i <= rem THEN 1 ELSE 0)
                 to == Min(d[i] - Min(target, d[i]), left)
             IN Pass(i + 1, left - to, [d EXCEPT ![i] = @ - to], [plan EXCEPT ![i] = @ + to], per, rem)
      RECURSIVE While(_, _, _, _)
      While(left, d, plan, passes) ==
        IF left = 0 \/ passes >= UndelegFuel THEN [left |-> left, plan |-> plan, passes |-> passes]
        ELSE LET after == SumSeq(d) - left
                 r == Pass(1, left, d, plan, after \div n, after % n)
             IN While(r.left, r.d, r.plan, passes + 1)
      w == While(amount, d0, [i \in 1..n |-> 0], 0)
  IN [ok |-> w.left = 0, plan |-> w.plan, passes |-> w.passes]
=============================================================================
